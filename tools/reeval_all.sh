#!/bin/bash
# reeval_all.sh [parallelism]: runs the quick check of the target property against every change kept under /verif/seeded (and
# C16 in addition for the changes that only show under the parallel executor) with the harness and the tree as they are now, and
# rewrites the "checks_run_against_it" part of each meta.json. Output lines also go to /tmp/reeval_all.out.
cd /verif
P=${1:-3}
: > ${REEVAL_OUT:=/tmp/reeval_all.out}
for d in seeded/${REEVAL_ONLY:-}*/; do
  n=$(basename $d); p=${n:0:3}; extra=""
  case $n in C04H|C03H|C03J) extra=" C16";; C10L|C10P|C10Q) extra=" C06";; C01R) extra=" C15";; esac
  echo "/verif/$d/patch.diff $n quick $p$extra"
done | xargs -P $P -L 1 ./tools/eval_seeded.sh >> $REEVAL_OUT 2>&1
python3 - <<'PY'
import json, re, glob, os
lines = [l.rstrip("\n") for l in open(os.environ.get("REEVAL_OUT", "/tmp/reeval_all.out"))]
by = {}
for l in lines:
    m = re.match(r"(\S+) (C\d+) (\w+) rc=(\d+)\s+(.*)", l)
    if m:
        by.setdefault(m.group(1), []).append({"check": m.group(2), "tier": m.group(3), "exit_code": int(m.group(4)), "first_report": m.group(5).strip()})
missed = []
for mp in sorted(glob.glob("/verif/seeded/*/meta.json")):
    meta = json.load(open(mp))
    if meta["id"] in by:
        meta["checks_run_against_it (tools/eval_seeded.sh)"] = by[meta["id"]]
        json.dump(meta, open(mp, "w"), indent=1)
        if not any(d["exit_code"] == 1 for d in by[meta["id"]]):
            missed.append(meta["id"])
    else:
        missed.append(meta["id"] + "(no result)")
print("re-evaluated", len(by), "changes; not reported:", missed)
PY
