#!/bin/bash
# eval_seeded.sh <patch.diff> <name> <tier> <prop> [<prop> ...]
# Runs the registered checks of the given properties against a scratch worktree of /repo carrying the seeded change (equivalent to
# `git -C /repo apply`, run, `git -C /repo checkout -- .`, but leaves /repo alone so that several changes can be evaluated at once).
# Prints one line per property: <name> <prop> <tier> rc=<exit code> <first verdict line>.
set -u
export GOFLAGS=-mod=mod GOPROXY=off GOSUMDB=off GOTOOLCHAIN=local
PATCH="$1"; NAME="$2"; TIER="$3"; shift 3
BASE=/tmp/eval/$NAME
WT=$BASE/repo; ROOT=$BASE/root
rm -rf "$BASE"; mkdir -p "$BASE" "$ROOT/bin" "$ROOT/.work" "$ROOT/evidence" "$ROOT/replays"
git -C /repo worktree add --detach "$WT" HEAD >/dev/null 2>&1 || { echo "$NAME worktree-failed"; exit 1; }
cleanup() { git -C /repo worktree remove --force "$WT" >/dev/null 2>&1; [ "${KEEP:-0}" = 1 ] || rm -rf "$BASE"; }
trap cleanup EXIT
if [ "$PATCH" != "none" ]; then git -C "$WT" apply "$PATCH" || { echo "$NAME patch-does-not-apply"; exit 1; }; fi
cp /verif/known_findings.json "$ROOT/"
sed "s#=> /repo#=> $WT#" "${HARNESS:-/verif/harness}/go.mod" > "$BASE/go.mod"; cp "${HARNESS:-/verif/harness}/go.sum" "$BASE/go.sum"
cd "${HARNESS:-/verif/harness}"
if ! go build -modfile="$BASE/go.mod" -tags verif -o "$ROOT/bin/verifmon" ./cmd/verifmon 2> "$ROOT/.work/build.log"; then
  echo "$NAME build-failed: $(head -3 $ROOT/.work/build.log | tr '\n' ' ')"; exit 1; fi
for P in "$@"; do
  if [ "$P" = "C16" ]; then
    go build -modfile="$BASE/go.mod" -race -tags verif -o "$ROOT/bin/verifmon-race" ./cmd/verifmon 2>> "$ROOT/.work/build.log" || { echo "$NAME race-build-failed"; continue; }
  fi
  if [ "$P" = "C20" ]; then
    (cd "$WT" && go build -o "$ROOT/bin/goneat-runner" . ) 2>> "$ROOT/.work/build.log" && export VERIFMON_RUNNER="$ROOT/bin/goneat-runner"
  fi
  out=$(cd "$ROOT" && VERIF_ROOT="$ROOT" VERIF_REPO="$WT" VERIFMON_RACE="$ROOT/bin/verifmon-race" ./bin/verifmon "$P" "$TIER" 2>&1); rc=$?
  line=$(echo "$out" | grep -E '^\s+\[|INCONCLUSIVE' | head -1 | cut -c1-260)
  [ -z "$line" ] && line=$(echo "$out" | tail -1 | cut -c1-160)
  echo "$NAME $P $TIER rc=$rc $line"
  if [ "${KEEP:-0}" = 1 ]; then echo "$out" > "$BASE/$P.out"; fi
done
