#!/bin/bash
# confirm_seeded.sh <dir with patch.diff + demo> <name> [noexamples]
# Confirms in a scratch worktree that a seeded change compiles, passes the pinned suite, and that its demonstration fails with the
# change and passes without it. Prints one summary line; details in <dir>/confirm.log. The worktree is removed afterwards.
set -u
export GOFLAGS=-mod=mod GOPROXY=off GOSUMDB=off GOTOOLCHAIN=local
D="$1"; NAME="$2"; NOEX="${3:-}"
WT=/tmp/confirm/$NAME
LOG="$D/confirm.log"
: > "$LOG"
rm -rf "$WT"; mkdir -p /tmp/confirm
git -C /repo worktree add --detach "$WT" HEAD >>"$LOG" 2>&1 || { echo "$NAME worktree-failed"; exit 1; }
cleanup() { git -C /repo worktree remove --force "$WT" >/dev/null 2>&1; rm -rf "$WT"; }
trap cleanup EXIT
cd "$WT"
demo=$(ls "$D"/zz_seeded_demo_test.go "$D"/main.go 2>/dev/null | head -1)
pkgdir=""
if [ -n "$demo" ] && [ "$(basename "$demo")" = "zz_seeded_demo_test.go" ]; then
  pkg=$(grep -m1 '^package ' "$demo" | awk '{print $2}' | sed 's/_test$//')
  case "$pkg" in
    genetics) pkgdir=neat/genetics;; network) pkgdir=neat/network;; math) pkgdir=neat/math;; neat) pkgdir=neat;;
    experiment) pkgdir=experiment;; utils) pkgdir=neat/utils;; formats) pkgdir=neat/network/formats;; goNEAT|goneat) pkgdir=.;;
    *) pkgdir=$(grep -rl --include=*.go "^package $pkg\$" . | head -1 | xargs dirname);;
  esac
fi
rundemo() {
  if [ -z "$demo" ]; then echo nodemo; return; fi
  if [ -n "$pkgdir" ]; then
    cp "$demo" "$pkgdir/zz_seeded_demo_test.go"
    go test -vet=off -count=1 -timeout 20m -run 'Seeded|seeded|Demo' "./$pkgdir/" >>"$LOG" 2>&1; rc=$?
    rm -f "$pkgdir/zz_seeded_demo_test.go"
  else
    mkdir -p zz_demo_main && cp "$demo" zz_demo_main/main.go
    go run ./zz_demo_main >>"$LOG" 2>&1; rc=$?
    rm -rf zz_demo_main
  fi
  [ $rc -eq 0 ] && echo pass || echo fail
}
echo "== demo on HEAD" >>"$LOG"; base=$(rundemo)
if ! git apply "$D/patch.diff" >>"$LOG" 2>&1; then echo "$NAME patch-does-not-apply"; exit 1; fi
echo "== build" >>"$LOG"
if go build ./... >>"$LOG" 2>&1 && go vet -tags verif ./neat/... >/dev/null 2>>"$LOG"; then build=ok; else build=FAIL; fi
go build -tags verif ./... >>"$LOG" 2>&1 || build=FAIL-verif-tag
echo "== demo with patch" >>"$LOG"; mut=$(rundemo)
echo "== unit tests" >>"$LOG"
if go test -vet=off -count=1 -timeout 25m ./neat/... ./experiment/... >>"$LOG" 2>&1; then unit=pass; else unit=FAIL; fi
ex=skipped
if [ "$NOEX" != "noexamples" ]; then
  echo "== examples" >>"$LOG"
  if go test -vet=off -count=1 -timeout 25m ./examples/... >>"$LOG" 2>&1; then ex=pass; else
    echo "== examples (second run)" >>"$LOG"
    if go test -vet=off -count=1 -timeout 25m ./examples/... >>"$LOG" 2>&1; then ex=pass-on-rerun; else ex=FAIL; fi
  fi
fi
echo "$NAME build=$build unit=$unit examples=$ex demo_head=$base demo_patched=$mut"
