#!/usr/bin/env python3
"""copy_notes.py: copies the lines '<id> <note>' of notes/missed_notes.txt into the 'history' field of seeded/<id>/meta.json."""
import json, os, re
notes = {}
for l in open('/verif/notes/missed_notes.txt'):
    m = re.match(r'(C\d\d[A-Z])\s+(.*)', l.strip())
    if m:
        notes.setdefault(m.group(1), []).append(m.group(2))
n = 0
for k, v in notes.items():
    mp = '/verif/seeded/%s/meta.json' % k
    if not os.path.exists(mp):
        continue
    meta = json.load(open(mp))
    h = "; ".join(v)
    if meta.get("history") != h:
        meta["history"] = h
        json.dump(meta, open(mp, 'w'), indent=1)
        n += 1
print("updated", n)
