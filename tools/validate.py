#!/opt/veriftools/pyvenv/bin/python3
import json, sys, glob, jsonschema
jsonschema.validate(json.load(open('/verif/MANIFEST.json')), json.load(open('/root/.vp/MANIFEST.schema.json')))
es = json.load(open('/root/.vp/EVIDENCE.schema.json'))
n = 0
for f in sorted(glob.glob('/verif/evidence/*.json')):
    jsonschema.validate(json.load(open(f)), es); n += 1
print('manifest valid; %d evidence files valid' % n)
