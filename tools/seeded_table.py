#!/usr/bin/env python3
"""seeded_table.py: prints the markdown table of /verif/seeded/*/meta.json for DESIGN.md section 9."""
import json, os, glob
rows = []
for mp in sorted(glob.glob("/verif/seeded/*/meta.json")):
    m = json.load(open(mp))
    det = m.get("checks_run_against_it (tools/eval_seeded.sh)", [])
    caught = [d for d in det if d["exit_code"] == 1]
    what = m["what_changed"].replace("|", "/").replace("**", "")
    what = what[:170] + ("..." if len(what) > 170 else "")
    by = ", ".join("%s %s: `%s`" % (d["check"], d["tier"], d["first_report"].split("]")[0].lstrip("[") ) for d in caught) or "MISSED"
    hist = " (*)" if "history" in m else ""
    rows.append("| %s%s | %s | %s | %s |" % (m["id"], hist, ", ".join(m["files_changed"]).replace("neat/genetics/", "g/").replace("neat/network/", "n/").replace("experiment/", "e/"), what, by))
print("| id | files | change | reported by (first report kind) |")
print("|---|---|---|---|")
print("\n".join(rows))
