#!/bin/bash
# round8.sh <property e.g. C03>: confirms and evaluates the two ninth-round changes of one property (ids <prop>Q, <prop>R)
cd /verif
P="$1"
for V in A B; do
  case $V in A) N=${P}Q;; B) N=${P}R;; esac
  D=/tmp/seeded_out9/$P/$V
  [ -f "$D/patch.diff" ] || { echo "$N no patch" >> /tmp/round9_confirm.txt; continue; }
  ( ./tools/confirm_seeded.sh "$D" "$N" >> /tmp/round9_confirm.txt 2>&1 ) &
  ( ./tools/eval_seeded.sh "$D/patch.diff" "$N" quick $P >> /tmp/round9_eval.txt 2>&1 ) &
done
wait
