#!/usr/bin/env python3
"""confirm_summary.py <confirm.log> <name>: rebuilds the one-line summary of tools/confirm_seeded.sh from its log."""
import re, sys
log = open(sys.argv[1]).read()
name = sys.argv[2]
parts = re.split(r"^== (.*)$", log, flags=re.M)
sec = {}
for i in range(1, len(parts) - 1, 2):
    sec[parts[i].strip()] = parts[i + 1]
def verdict(text):
    if text is None:
        return "missing"
    if re.search(r"^(FAIL|--- FAIL|panic:)", text, re.M) or "build failed" in text:
        return "fail"
    if re.search(r"^ok\s", text, re.M):
        return "pass"
    return "unknown"
build = "ok" if sec.get("build", "x").strip() == "" else "FAIL"
ex = verdict(sec.get("examples"))
if ex == "fail" and "examples (second run)" in sec:
    ex = "pass-on-rerun" if verdict(sec["examples (second run)"]) == "pass" else "FAIL"
print("%s build=%s unit=%s examples=%s demo_head=%s demo_patched=%s" % (name, build, verdict(sec.get("unit tests")), ex,
      verdict(sec.get("demo on HEAD")), verdict(sec.get("demo with patch"))))
