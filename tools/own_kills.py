#!/usr/bin/env python3
"""own_kills.py: the designer's own list of small breaking edits (the 'Kills' of DESIGN.md section 4). Writes one patch per edit into
/tmp/ownkills/<id>.diff (made in a scratch worktree of /repo). They are sensitivity probes for the monitors, not seeded changes: nothing
says they pass the pinned suite. Usage: own_kills.py [id ...]"""
import os, subprocess, sys, shutil
G='neat/genetics/'; N='neat/network/'
KILLS = [
 # id, properties expected to notice, file, old, new
 ("k01_geneinsert_append", "C01", G+"genome.go", "	if index == 0 || g.InnovationNum >= genes[index-1].InnovationNum {", "	if index == 0 || g.InnovationNum >= genes[index-1].InnovationNum || len(genes) > 6 {"),
 ("k02_singlepoint_no_conflict_check", "C01", G+"genome_reproduce.go", "		if chosenGene == nil {\n			// no gene was chosen yet - move to the next one\n			continue\n		}\n\n		// Check to see if the chosen gene conflicts with an already chosen gene i.e. do they represent the same link\n		if !skip {", "		if chosenGene == nil {\n			// no gene was chosen yet - move to the next one\n			continue\n		}\n\n		// Check to see if the chosen gene conflicts with an already chosen gene i.e. do they represent the same link\n		if !skip && false {"),
 ("k03_nodeinsert_no_map", "C01", G+"genome.go", "func (g *Genome) nodeInsert(node *network.NNode) {\n	g.Nodes = nodeInsert(g.Nodes, node)\n	g.mapNodeId(node)", "func (g *Genome) nodeInsert(node *network.NNode) {\n	g.Nodes = nodeInsert(g.Nodes, node)"),
 ("k04_addlink_into_sensor", "C01 C05", G+"genome_mutate.go", "		if node2.IsSensor() {", "		if node2.IsSensor() && false {"),
 ("k05_no_ageing", "C02", G+"population.go", "				currSpecies.Age += 1", "				currSpecies.Age += 0"),
 ("k06_genome_ids_not_renumbered", "C02", G+"population.go", "				org.Genotype.Id = orgCount\n", "				org.Genotype.Id = orgCount / 2\n"),
 ("k07_innov_lookup_ignores_recurrence", "C03", G+"genome_mutate.go", None, None),
 ("k08_p1better_inverted", "C04", G+"genome_reproduce.go", "	if fitness1 > fitness2 ||\n		(fitness1 == fitness2 && len(g.Genes) < len(og.Genes)) {\n		p1better = true\n	}\n\n	// Now loop through the Genes of each parent", "	if fitness1 < fitness2 ||\n		(fitness1 == fitness2 && len(g.Genes) < len(og.Genes)) {\n		p1better = true\n	}\n\n	// Now loop through the Genes of each parent"),
 ("k09_matetraits_copies_p1", "C04", G+"genome_reproduce.go", "		newTraits[i], err = neat.NewTraitAvrg(tr, og.Traits[i]) // construct by averaging", "		newTraits[i], err = neat.NewTraitAvrg(tr, tr) // construct by averaging"),
 ("k10_genecopy_enabled_true", "C04 C06 C10", G+"gene.go", "		g.InnovationNum, g.MutationNum, g.IsEnabled)\n}", "		g.InnovationNum, g.MutationNum, true)\n}"),
 ("k11_reenable_all", "C05", G+"genome_mutate.go", "		if !gene.IsEnabled {\n			gene.IsEnabled = true\n			break\n		}", "		if !gene.IsEnabled {\n			gene.IsEnabled = true\n		}"),
 ("k12_toggle_without_other_enabled_test", "C05", G+"genome_mutate.go", "					checkGene.IsEnabled && checkGene.InnovationNum != gene.InnovationNum {", "					checkGene.IsEnabled {"),
 ("k13_nodecopy_drops_activation", "C06 C11", N+"nnode.go", "	node.ActivationType = n.ActivationType\n	node.Trait = t\n	return node", "	node.Trait = t\n	return node"),
 ("k14_no_division_by_species_size", "C09", G+"species.go", "		org.Fitness = org.Fitness / float64(len(s.Organisms))", "		org.Fitness = org.Fitness / 1.0"),
 ("k15_parents_pool_without_plus_one", "C09", G+"species.go", "	numParents := int(math.Floor(opts.SurvivalThresh*float64(len(s.Organisms)) + 1.0))", "	numParents := int(math.Ceil(opts.SurvivalThresh * float64(len(s.Organisms))))"),
 ("k16_champ_clone_threshold_6", "C10", G+"species.go", "		} else if !champCloneDone && s.ExpectedOffspring > 5 {", "		} else if !champCloneDone && s.ExpectedOffspring > 6 {"),
 ("k17_delta_coding_odd_popsize", "C09 C02", G+"population.go", "		currSpecies.Organisms[0].superChampOffspring = opts.PopSize - halfPop\n		currSpecies.ExpectedOffspring = opts.PopSize - halfPop", "		currSpecies.Organisms[0].superChampOffspring = halfPop\n		currSpecies.ExpectedOffspring = halfPop"),
 ("k18_flushback_keeps_last_activation", "C13", N+"nnode.go", "	n.Activation = 0\n	n.lastActivation = 0\n	n.lastActivation2 = 0\n	n.isActive = false", "	n.Activation = 0\n	n.lastActivation2 = 0\n	n.isActive = false"),
 ("k19_fast_flush_skips_processing_buffer", "C13", N+"fast_network.go", "		s.neuronSignals[i] = 0.0\n		s.neuronSignalsBeingProcessed[i] = 0.0", "		s.neuronSignals[i] = 0.0"),
 ("k20_steal_leak", "C09 C02", G+"population.go", "					currSpecies.ExpectedOffspring += 3\n					stolenBabies -= 3", "					currSpecies.ExpectedOffspring += 3\n					stolenBabies -= 2"),
]
def main():
    want = set(sys.argv[1:])
    out = "/tmp/ownkills"; os.makedirs(out, exist_ok=True)
    wt = "/tmp/ownkills/wt"
    subprocess.run(["git","-C","/repo","worktree","remove","--force",wt],capture_output=True)
    subprocess.check_call(["git","-C","/repo","worktree","add","--detach",wt,"HEAD"],stdout=subprocess.DEVNULL,stderr=subprocess.DEVNULL)
    try:
        for kid, props, f, old, new in KILLS:
            if old is None or (want and kid not in want):
                continue
            p = os.path.join(wt, f)
            s = open(p).read()
            if s.count(old) < 1:
                print(kid, "TARGET NOT FOUND"); continue
            open(p,"w").write(s.replace(old, new, 1))
            d = subprocess.check_output(["git","-C",wt,"diff","HEAD"],text=True)
            open(os.path.join(out, kid+".diff"),"w").write(d)
            subprocess.check_call(["git","-C",wt,"checkout","--","."])
            print(kid, props)
    finally:
        subprocess.run(["git","-C","/repo","worktree","remove","--force",wt],capture_output=True)
if __name__ == "__main__":
    main()
