#!/bin/bash
# round8.sh <property e.g. C03>: confirms and evaluates the two eighth-round changes of one property (ids <prop>M, <prop>N)
cd /verif
P="$1"
for V in A B; do
  case $V in A) N=${P}O;; B) N=${P}P;; esac
  D=/tmp/seeded_out8/$P/$V
  [ -f "$D/patch.diff" ] || { echo "$N no patch" >> /tmp/round8_confirm.txt; continue; }
  ( ./tools/confirm_seeded.sh "$D" "$N" >> /tmp/round8_confirm.txt 2>&1 ) &
  ( ./tools/eval_seeded.sh "$D/patch.diff" "$N" quick $P >> /tmp/round8_eval.txt 2>&1 ) &
done
wait
