#!/bin/bash
# file_seeded.sh <name e.g. C03B|C03C> <file with eval lines> : files the seeded change under /verif/seeded/<name>/ if it is confirmed
cd /verif
NAME="$1"; EV="$2"
P=${NAME:0:3}; V=${NAME:3}
case "$V" in A|B) SRC=/tmp/seeded_out/$P/$V;; C) SRC=/tmp/seeded_out2/$P/A;; D) SRC=/tmp/seeded_out2/$P/B;; E) SRC=/tmp/seeded_out3/$P/A;; F) SRC=/tmp/seeded_out3/$P/B;; G) SRC=/tmp/seeded_out4/$P/A;; H) SRC=/tmp/seeded_out4/$P/B;; I) SRC=/tmp/seeded_out5/$P/A;; J) SRC=/tmp/seeded_out5/$P/B;; K) SRC=/tmp/seeded_out6/$P/A;; L) SRC=/tmp/seeded_out6/$P/B;; M) SRC=/tmp/seeded_out7/$P/A;; N) SRC=/tmp/seeded_out7/$P/B;; O) SRC=/tmp/seeded_out8/$P/A;; P) SRC=/tmp/seeded_out8/$P/B;; Q) SRC=/tmp/seeded_out9/$P/A;; R) SRC=/tmp/seeded_out9/$P/B;; esac
[ -f "$SRC/confirm.log" ] || { echo "$NAME no confirm.log yet"; exit 0; }
if [ -f "$SRC/confirm.override" ]; then C=$(cat "$SRC/confirm.override"); else C=$(python3 tools/confirm_summary.py "$SRC/confirm.log" "$NAME"); fi
case "$C" in
  *"build=ok unit=pass examples=pass"*"demo_head=pass"*"demo_patched=fail"*) ;;
  *"build=ok unit=pass examples=pass-on-rerun"*"demo_head=pass"*"demo_patched=fail"*) ;;
  *) echo "$NAME NOT CONFIRMED: $C"; exit 0;;
esac
mapfile -t LINES < <(grep "^$NAME " "$EV")
python3 tools/save_seeded.py "$NAME" "$C" "${LINES[@]}"
