#!/usr/bin/env python3
"""save_seeded.py <name e.g. C03B> <confirm line> <eval lines...>: files a confirmed seeded change under /verif/seeded/<name>/."""
import json, os, re, shutil, sys
name = sys.argv[1]
prop, var = name[:3], name[3:]
src = "/tmp/seeded_out/%s/%s" % (prop, var)
if var in ("C", "D"):  # second round of sub-agents
    src = "/tmp/seeded_out2/%s/%s" % (prop, {"C": "A", "D": "B"}[var])
if var in ("I", "J"):  # fifth round
    src = "/tmp/seeded_out5/%s/%s" % (prop, {"I": "A", "J": "B"}[var])
if var in ("K", "L"):  # sixth round
    src = "/tmp/seeded_out6/%s/%s" % (prop, {"K": "A", "L": "B"}[var])
if var in ("M", "N"):  # seventh round
    src = "/tmp/seeded_out7/%s/%s" % (prop, {"M": "A", "N": "B"}[var])
if var in ("O", "P"):  # eighth round
    src = "/tmp/seeded_out8/%s/%s" % (prop, {"O": "A", "P": "B"}[var])
if var in ("Q", "R"):  # ninth round
    src = "/tmp/seeded_out9/%s/%s" % (prop, {"Q": "A", "R": "B"}[var])
if var in ("G", "H"):  # fourth round
    src = "/tmp/seeded_out4/%s/%s" % (prop, {"G": "A", "H": "B"}[var])
if var in ("E", "F"):  # third round
    src = "/tmp/seeded_out3/%s/%s" % (prop, {"E": "A", "F": "B"}[var])
dst = "/verif/seeded/%s" % name
os.makedirs(dst, exist_ok=True)
for f in os.listdir(src):
    if f in ("patch.diff", "README.md", "zz_seeded_demo_test.go", "main.go"):
        shutil.copy(os.path.join(src, f), os.path.join(dst, f))
confirm = sys.argv[2]
evals = sys.argv[3:]
readme = open(os.path.join(src, "README.md")).read() if os.path.exists(os.path.join(src, "README.md")) else ""
def section(words):
    for para in re.split(r"\n\s*\n", readme):
        if any(re.search(w, para, re.I) for w in words):
            return " ".join(para.split())[:900]
    return ""
files = sorted(set(re.findall(r"^\+\+\+ b/(\S+)", open(os.path.join(src, "patch.diff")).read(), re.M)))
kv = dict(x.split("=", 1) for x in confirm.split()[1:] if "=" in x)
detected = []
last = {}
for e in evals:  # a change may have been evaluated again after a check was strengthened: the last run per check counts
    mm = re.match(r"(\S+) (C\d+) (\w+) ", e)
    if mm:
        last[(mm.group(2), mm.group(3))] = e
for e in last.values():
    m = re.match(r"(\S+) (C\d+) (\w+) rc=(\d+)\s+(.*)", e)
    if m:
        detected.append({"check": m.group(2), "tier": m.group(3), "exit_code": int(m.group(4)), "first_report": m.group(5).strip()})
meta = {
    "id": name, "property": prop, "files_changed": files,
    "what_changed": section([r"\*\*change", r"^#* *what", r"changed"]) or " ".join(readme.split())[:600],
    "needs_to_manifest": section([r"\*\*needs", r"manifest", r"needs"]),
    "origin": "written by a fresh sub-agent that was given only the text of the property and a scratch worktree of /repo" + (" (second round: told which code sites the first round had used, asked for different mechanisms)" if var in ("C", "D") else "") + (" (third round: told the sites of both earlier rounds, asked for state / aliasing / history / boundary mechanisms)" if var in ("E", "F") else "") + (" (fourth round: told the sites of all earlier rounds, asked for what a thorough randomized checker would still miss)" if var in ("G", "H") else "") + (" (fifth round: told the sites of all earlier rounds; coincidences, identity, overflow, nil vs empty, extreme legal option values, re-entrancy)" if var in ("I", "J") else "") + (" (sixth round: told the sites of all earlier rounds; helpers the anchors depend on, hand-over between components, alternative entry points, second use of an object, options that act together, caller-supplied orders)" if var in ("K", "L") else "") + (" (seventh round: told the sites of all earlier rounds; fast paths for special shapes, memoisation, integer conversions, sort stability, cleanup on one return path, boundaries moved by one, nil vs empty vs zero-valued arguments, second calls, receivers copied by value)" if var in ("M", "N") else "") + (" (eighth round: told the sites of all earlier rounds; state left behind after an error or a refused operation, asymmetries between twin code paths, exact boundaries of ages / generations / counters, rarely used options and their combinations, formatting and parsing of unusual numbers, shared backing arrays)" if var in ("O", "P") else "") + (" (ninth round: told the sites of all earlier rounds; two things that must come together - option pairs, an option with a shape of genome or population, helper packages the anchored code merely calls -, performance shortcuts such as early returns, reused scratch buffers, caches not invalidated on one path and coarser sorts, exact counts and last elements, second or third generation, orders of calls on two objects, values that went through a write / read cycle, rounding direction, swallowed errors)" if var in ("Q", "R") else ""),
    "confirmed_in_scratch_worktree": {
        "script": "tools/confirm_seeded.sh", "go_build": kv.get("build"), "unit_suites (./neat/... ./experiment/...)": kv.get("unit"),
        "examples (./examples/...)": kv.get("examples"), "demonstration_on_unchanged_HEAD": kv.get("demo_head"),
        "demonstration_with_change": kv.get("demo_patched")},
    "demonstration": [f for f in os.listdir(dst) if f.startswith("zz_") or f == "main.go"],
    "checks_run_against_it (tools/eval_seeded.sh)": detected,
}
mp = os.path.join(dst, "meta.json")
if os.path.exists(mp):
    try:
        old = json.load(open(mp))
        if "history" in old:
            meta["history"] = old["history"]
    except Exception:
        pass
json.dump(meta, open(mp, "w"), indent=1)
print(name, "saved;", "DETECTED" if any(d["exit_code"] == 1 for d in detected) else "MISSED")
