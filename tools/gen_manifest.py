#!/usr/bin/env python3
"""Generates /verif/MANIFEST.json from the table below and the set of monitors registered in the harness."""
import json, os, re, subprocess, sys

ROOT = os.path.dirname(os.path.dirname(os.path.abspath(__file__)))

CHECKS = {
 "C01": ("exploration", "runtime monitor: well-formedness oracle on every genome produced by random operator histories (shared innovation registry, sensors-first and sensors-late layouts, unrelated random lineages) and by real epochs (both executors, three constructors, store / restore in the middle of a run)",
         "Held on the genomes produced by the sampled operator and epoch histories; says nothing about histories, sizes and option values not drawn (bounds in evidence)."),
 "C02": ("exploration", "runtime monitor: population / species partition invariants checked after every real NextEpoch under hostile option sets (probabilities snapped to exactly 0 / 1) and 8 fitness shapes incl. values whose sum overflows",
         "Held on the epochs produced: population 3..150, 25-60 consecutive epochs per scenario (a quarter of them with a store / restore in the middle), 8 fitness shapes including finite values whose sum overflows."),
 "C03": ("exploration", "runtime monitor: history-long innovation / node-id registry (control nodes of modules included) + per-generation event log of stored innovations (hook) checked online; store / restore in the middle of a run; modular start genomes (asexual reproduction)",
         "Held on the populations evolved; the sequential-only clauses are not asserted for parallel epochs; a restored population starts a new history."),
 "C04": ("exploration", "runtime monitor: reference alignment oracle over before/after snapshots of parents and child for the three crossovers, called directly (also on parents extended by hand between matings) and observed at the Mated hook inside real epochs (fitter parent by the fitness the evaluator assigned; matings across species)",
         "Held on the sampled parent pairs with common ancestry (family members grown by operator histories; organisms of spawned populations in real epochs)."),
 "C05": ("exploration", "runtime monitor: per-mutator before/after relation oracle over snapshots, with empty / matching / non-matching innovation records, mutators applied in place in chains on one genome object (a copy, or the object a crossover has just handed over)",
         "Held on the sampled genomes and records; a false result of add-node / add-link is outside the statement and only counted."),
 "C06": ("exploration", "runtime monitor: snapshot equality, object-address disjointness (exported fields and the node look-up view), sibling copies and mutation-independence oracle for duplicate and spawn; modular genomes with shared module IO and module links carrying weights, recurrence flags and traits",
         "Held on the sampled genomes (evolved, hand-built, modular)."),
 "C07": ("exploration", "runtime monitor: independent reference implementation of the NEAT compatibility formula compared with both methods on synthetic and evolved gene lists (equal and different genome ids); the measured genomes must stay unchanged",
         "Held on the sampled pairs (lists of 0..40 genes, now and then 64..4096; innovation numbers up to just below the maximal int64; each genome also against the duplicate the library makes of it); relative tolerance 1e-9 for the different summation orders."),
 "C08": ("exploration", "runtime monitor: hook after every placement in speciate (also inside the three constructors and ReadPopulation of a stored run) recomputes all distances with the reference formula (the library's figure only breaks ties of rounding, no tolerance at the threshold); offline reference speciator on shuffled batches",
         "Held on the placements observed, including representatives exactly at the threshold."),
 "C09": ("exploration", "runtime monitor: quotas, expected offspring and parent pools recomputed from pre-epoch snapshots and compared at the Prepared / ReproduceStart / ReproduceEnd hooks of real epochs (pool size exact; the pool must be unchanged when the species reproduces)",
         "Held on the epochs produced; fitness bounded by 1e12 with at least one positive value."),
 "C10": ("exploration", "runtime monitor: independent snapshot of each sizeable species' champion at the Prepared hook, searched for in the next generation",
         "Held on the champions observed (both executors, with stolen babies and delta coding)."),
 "C11": ("exploration", "runtime monitor: expected multigraph built from the genome snapshot compared with Genesis / Phenotype() results and with every graph-view query over all ordered id pairs (undirected before directed questions and the reverse, directed questions asked twice); re-expression after in-place changes; modules sharing IO nodes; the genome must stay unchanged",
         "Held on the sampled genomes (<= 40 nodes; modular ones expressed twice and held across UpdatePhenotype as well) and the organisms of real epochs."),
 "C12": ("exploration", "runtime monitor: reference topological evaluation of generated DAGs (forward links may carry the recurrent label) compared with all solver paths: fresh instances, a second input vector, two solvers of one network, mixed-mode sequences with and without flush on one instance",
         "Held on the sampled DAGs (up to 8 hidden neurons; chains of 33-45; layered networks of a hundred to a few hundred neurons), weights and inputs (among them the all-zero vector, a repeated vector, a too short first attempt); tolerance 1e-9 relative for summation order."),
 "C13": ("exploration", "runtime monitor: differential execution of random operation programs on a flushed instance vs a freshly built one, bit-exact; recurrent, time-delayed and modular (generated modules) networks, both solvers",
         "Held on the sampled networks and programs."),
 "C14": ("exploration", "runtime monitor: longest-path DP oracle and visited-mark inspection after capped / uncapped depth queries, mixed query sequences; forward links labelled recurrent; child stack limit turns non-termination into a fatal signature",
         "Held on the sampled graphs (<= 14 nodes, sparse; chains of 30-330 hidden neurons with a few shortcuts; one bare chain of more than a thousand)."),
 "C15": ("exploration", "runtime monitor: write/read round trips compared by independent snapshots (genomes incl. >500-node ones, organisms one by one and in batches, populations incl. repeated genome ids, solver models, experiments incl. empty trials and solved records without winner sizes; nodes numbered from zero)",
         "Held on the sampled artefacts; module link weights restricted to 1.0 which is all the YAML format can express; no negative zero."),
 "C16": ("exploration", "Go race detector over parallel epochs (delays injected at the Yield / ReproduceStart hooks, cold starts on new Options / Population objects, debug log level, a cancelled epoch) + population monitors + shared-list integrity + porcupine linearizability check of recorded registry histories",
         "Held on the interleavings that occurred (count in evidence); the race detector sees only accesses that happened."),
 "C17": ("exploration", "runtime monitor: serialised populations of repeated runs compared in-process (same input objects, changed copy of used options and the used options object edited in place vs fresh options, activation list re-read from an options text for every run, after unrelated work and a GC) and across separate processes (GOGC=1, GOMAXPROCS=1); inputs must come back unmodified",
         "Held on the sampled scenarios; fitness is a deterministic function of the genome."),
 "C18": ("exploration", "runtime monitor: independent closed forms (relative 1e-12), range, monotonicity (4 ulp tolerance) over breakpoint-dense inputs; module activators incl. input immutability and results held across later activations; registry enumerated over all 256 codes and extended at run time on factories of their own",
         "Held on the sampled inputs with |x| <= 1e300 (module vectors of 1-8, now and then up to 5000 inputs); the registry part is exhaustive over type codes and looks up a corpus of about 13 000 strings around the names and codes; concurrent activation through the shared factory in several processes."),
 "C19": ("exploration", "runtime monitor: textbook definitions on sorted copies compared with Floats / Trial / Experiment aggregates over generated series (incl. large common offsets; data-relative tolerances) and synthetic experiments (aggregates re-checked after in-place reordering; returned series must stay stable)",
         "Held on the sampled series (length 0..1024, now and then 4096..100001) and experiments (also recorded trial by trial into a pre-allocated list, one record replaced in place); variance asserted for n >= 2."),
 "C20": ("fault_enumeration", "trace checker over the recorded evaluator / observer call log of real Execute runs, enumerating solved patterns (incl. runs of zero trials and of zero generations), evaluator-error positions (plain, with the solved flag, deadline-like), cancellation points, pre-allocated and reused Experiment objects",
         "Exhaustive within the stated bounds (trials x generations x solved patterns x fault positions; observer and evaluator handed over in several forms, half of the observers asking the running experiment for progress reports); beyond them only a fixed list of longer runs (5-40 trials x 5-35 generations)."),
}

def registered():
    ids = set()
    d = os.path.join(ROOT, "harness", "cmd", "verifmon")
    for f in os.listdir(d):
        if f.endswith(".go"):
            for m in re.finditer(r'ID:\s*"(C\d+)"', open(os.path.join(d, f)).read()):
                ids.add(m.group(1))
    return ids

def main():
    have = registered()
    try:
        hook_commits = subprocess.check_output(["git", "-C", "/repo", "log", "--format=%H %s", "--grep=^verif hooks"], text=True).strip().splitlines()
    except Exception:
        hook_commits = []
    checks, na = [], []
    for pid in sorted(CHECKS):
        level, technique, note = CHECKS[pid]
        if pid not in have:
            na.append({"property_id": pid, "reason": "monitor under construction in this round (design in DESIGN.md section 4); not claimed until it runs"})
            continue
        checks.append({
            "property_id": pid,
            "quick_cmd": "./run.sh %s quick" % pid,
            "thorough_cmd": "./run.sh %s thorough" % pid,
            "evidence_file": "/verif/evidence/%s.json" % pid,
            "replay_cmd_template": "./run.sh replay {path}",
            "engine": "verifmon",
            "level_claimed": {"category": level, "text": note, "design_ref": "DESIGN.md section 4, " + pid},
            "level_note": "Trusted base: the Go toolchain, the harness oracles (independent re-implementations on plain snapshots) and the verif-tagged hooks in /repo; a pass means the property held on the executions produced, not for all inputs.",
            "technique": technique,
        })
    m = {
        "version": 1,
        "setup_cmd": "./setup.sh",
        "hooks": {
            "guard": "verif",
            "enable": "go build -tags verif (run.sh rebuilds harness/cmd/verifmon against /repo's working tree with the tag on)",
            "baseline_off_cmd": "cd /repo && GOFLAGS=-mod=mod GOPROXY=off GOSUMDB=off GOTOOLCHAIN=local go test -json -vet=off -count=1 -timeout 25m ./...",
            "source_commits": [c.split()[0] for c in hook_commits],
            "add_only": True,
        },
        "engines": [{"name": "verifmon", "path": "/verif/harness/cmd/verifmon", "serves_properties": sorted(have),
                     "kind_free_text": "Go runtime monitors (reference-model, before/after relation, trace and history checkers) driven by seeded workloads; race detector build for C16; porcupine for recorded registry histories"}],
        "checks": checks,
        "not_applicable": na,
        "notes": "Technique family: runtime monitoring and sanitizers. Exit 0 held / 1 violation (VIOLATION line) / 2 inconclusive (INCONCLUSIVE line). VERIF_SEED selects the case list. known_findings.json lists recorded findings and the fixed: entries.",
    }
    json.dump(m, open(os.path.join(ROOT, "MANIFEST.json"), "w"), indent=1)
    print("MANIFEST.json: %d checks, %d not yet claimed" % (len(checks), len(na)))

if __name__ == "__main__":
    main()
