#!/usr/bin/env python3
"""Rewrites the generated blocks of DESIGN.md (between <!-- X-BEGIN --> and <!-- X-END --> markers)."""
import re, subprocess
p = "/verif/DESIGN.md"
s = open(p).read()
table = subprocess.check_output(["python3", "/verif/tools/seeded_table.py"], text=True)
s = re.sub(r"<!-- SEEDED-TABLE-BEGIN -->.*?<!-- SEEDED-TABLE-END -->", "<!-- SEEDED-TABLE-BEGIN -->\n" + table + "<!-- SEEDED-TABLE-END -->", s, flags=re.S)
import json, glob
rows = ["| change | why it was missed, what was added |", "|---|---|"]
for mp in sorted(glob.glob("/verif/seeded/*/meta.json")):
    m = json.load(open(mp))
    if "history" in m:
        rows.append("| %s | %s |" % (m["id"], m["history"].replace("|", "/")))
s = re.sub(r"<!-- MISSED-TABLE-BEGIN -->.*?<!-- MISSED-TABLE-END -->", "<!-- MISSED-TABLE-BEGIN -->\n" + "\n".join(rows) + "\n<!-- MISSED-TABLE-END -->", s, flags=re.S)
open(p, "w").write(s)
