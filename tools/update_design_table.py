#!/usr/bin/env python3
"""Rewrites the generated blocks of DESIGN.md (between <!-- X-BEGIN --> and <!-- X-END --> markers)."""
import re, subprocess
p = "/verif/DESIGN.md"
s = open(p).read()
table = subprocess.check_output(["python3", "/verif/tools/seeded_table.py"], text=True)
s = re.sub(r"<!-- SEEDED-TABLE-BEGIN -->.*?<!-- SEEDED-TABLE-END -->", "<!-- SEEDED-TABLE-BEGIN -->\n" + table + "<!-- SEEDED-TABLE-END -->", s, flags=re.S)
import json, glob
rows = ["| change | why it was missed, what was added |", "|---|---|"]
for mp in sorted(glob.glob("/verif/seeded/*/meta.json")):
    m = json.load(open(mp))
    if "history" in m:
        rows.append("| %s | %s |" % (m["id"], m["history"].replace("|", "/")))
s = re.sub(r"<!-- MISSED-TABLE-BEGIN -->.*?<!-- MISSED-TABLE-END -->", "<!-- MISSED-TABLE-BEGIN -->\n" + "\n".join(rows) + "\n<!-- MISSED-TABLE-END -->", s, flags=re.S)
rounds = ["AB", "CD", "EF", "GH", "IJ", "KL", "MN", "OP", "QR"]
names = ["first", "second", "third", "fourth", "fifth", "sixth", "seventh", "eighth", "ninth"]
kept, missed = [0] * 9, [0] * 9
for mp in glob.glob("/verif/seeded/*/meta.json"):
    m = json.load(open(mp))
    k = [i for i, r in enumerate(rounds) if m["id"][3] in r][0]
    kept[k] += 1
    if m.get("history", "").startswith("MISSED"):
        missed[k] += 1
n = max(i for i in range(9) if kept[i]) + 1
s = re.sub(r"<!-- KEPT-BEGIN -->.*?<!-- KEPT-END -->", "<!-- KEPT-BEGIN -->%d changes are kept (%s).<!-- KEPT-END -->" % (sum(kept), " + ".join(str(x) for x in kept[:n])), s, flags=re.S)
s = re.sub(r"<!-- MISSEDCOUNT-BEGIN -->.*?<!-- MISSEDCOUNT-END -->", "<!-- MISSEDCOUNT-BEGIN -->" + ", ".join("%d of %d in the %s round" % (missed[i], kept[i], names[i]) for i in range(n)) + "<!-- MISSEDCOUNT-END -->", s, flags=re.S)
open(p, "w").write(s)
