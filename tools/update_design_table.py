#!/usr/bin/env python3
"""Rewrites the generated blocks of DESIGN.md (between <!-- X-BEGIN --> and <!-- X-END --> markers)."""
import re, subprocess
p = "/verif/DESIGN.md"
s = open(p).read()
table = subprocess.check_output(["python3", "/verif/tools/seeded_table.py"], text=True)
s = re.sub(r"<!-- SEEDED-TABLE-BEGIN -->.*?<!-- SEEDED-TABLE-END -->", "<!-- SEEDED-TABLE-BEGIN -->\n" + table + "<!-- SEEDED-TABLE-END -->", s, flags=re.S)
open(p, "w").write(s)
