#!/bin/bash
# run.sh <C01..C20> <quick|thorough>   |   run.sh replay <path>
# Rebuilds the monitor binary from /repo's current working tree with the verification hooks on and runs it.
set -u
cd "$(dirname "$0")"
export VERIF_ROOT="$PWD"
export GOFLAGS=-mod=mod GOPROXY=off GOSUMDB=off GOTOOLCHAIN=local
export VERIF_REPO="${VERIF_REPO:-/repo}"
mkdir -p bin .work evidence replays
build() {
  (cd harness && go build -tags verif "$@" ./cmd/verifmon) 2> .work/build.log
}
if ! (cd harness && go build -tags verif -o ../bin/verifmon ./cmd/verifmon) 2> .work/build.log; then
  cat .work/build.log
  echo "INCONCLUSIVE property=${1:-?} reason=harness does not build against the current tree"
  exit 2
fi
if [ "${1:-}" = "C16" ] || [ "${VERIF_RACE:-0}" = "1" ]; then
  if ! (cd harness && go build -race -tags verif -o ../bin/verifmon-race ./cmd/verifmon) 2> .work/build-race.log; then
    cat .work/build-race.log
    echo "INCONCLUSIVE property=${1:-?} reason=race build of the harness failed"
    exit 2
  fi
  export VERIFMON_RACE="$PWD/bin/verifmon-race"
fi
if [ "${1:-}" = "C20" ] || [ "${1:-}" = "replay" ]; then
  # the experiment runner program of the repository root, built from the tree under check
  if (cd "$VERIF_REPO" && go build -o "$VERIF_ROOT/bin/goneat-runner" . ) 2> .work/build-runner.log; then
    export VERIFMON_RUNNER="$VERIF_ROOT/bin/goneat-runner"
  else
    cat .work/build-runner.log
  fi
fi
exec ./bin/verifmon "$@"
