package main

import (
	"fmt"
	"math"
	"math/rand"
	"sort"
	"strings"

	"github.com/yaricom/goNEAT/v4/neat"
	"github.com/yaricom/goNEAT/v4/neat/genetics"
)

// C08 - speciation puts each organism in its nearest compatible species.

func init() {
	register(&Prop{
		ID: "C08", Level: "exploration", DesignRef: "DESIGN.md section 4 C08",
		Rule: "even cases: a batch of 20-60 evolved genomes is speciated into an empty population in a shuffled order of arrival, then a second " +
			"batch into the species that exist by then, with the threshold placed at a random quantile of the batch's distance matrix; " +
			"every placement is checked at the Speciated hook against the distances to all representatives (reference formula) and the " +
			"whole assignment against an offline reference speciator; odd cases: 20-40 real epochs with the hook monitor on (in-epoch " +
			"speciation, constructors). evaluations = placements. A placement is non-trivial if at least two species were candidates " +
			"(closer than the threshold) or a new species was founded while others existed; distinct by (distance vector, threshold).",
		Assumptions: []string{"every distance is measured twice (reference formula, library); a placement is wrong only if it is wrong by both measures - no tolerance constants, a distance exactly at the threshold is not closer than the threshold"},
		Cases: func(tier string) int {
			if tier == "quick" {
				return 256
			}
			return 9600
		},
		Run:      runC08,
		Required: []string{"placed.representative_exactly_at_threshold", "placed.joined_nearest_of_several", "placed.joined_only_candidate", "placed.founded", "placed.in_epoch", "placed.direct", "method.linear", "method.fast"},
	})
}

func runC08(c *Ctx, idx int) {
	if idx%2 == 0 {
		c08Direct(c)
	} else {
		sc := genScenario(c.G, true)
		sc.Epochs = 20 + c.G.Intn(21)
		// thresholds which give several species
		sc.Opts.CompatThreshold = pick(c.G, 0.3, 0.6, 1.0, 2.0, 3.0)
		if idx%4 == 3 {
			// from some epoch on the caller goes on with a changed by-value copy of the options (another threshold)
			sc.SwitchOptsAt = 2 + c.G.Intn(sc.Epochs-2)
			sc.switchThreshold = true
		}
		if idx%6 == 1 {
			// a population restored from the dump by species of a population that was speciated under another threshold
			sc.Ctor = ctorRead
			sc.BySpeciesFactor = pick(c.G, 0.2, 0.5, 3.0, 10.0)
			if sc.Opts.MutdiffCoeff == 0 {
				sc.Opts.MutdiffCoeff = 1
			}
			c.Count("scenarios.restored_from_a_dump_by_species_made_under_another_threshold", 1)
		}
		if idx%6 == 3 {
			// a population spawned from a genome with the weights of a trained network, under a threshold of a few mutation powers
			sc.Ctor = ctorSpawn
			if !strings.Contains(sc.StartSrc, "heavy") {
				heavyWeights(c.G, sc.Start)
				sc.StartSrc += "+heavy-weights"
			}
			sc.Opts.MutdiffCoeff = pick(c.G, 0.4, 1.0)
			c.Count("scenarios.spawned_from_a_genome_with_trained_weights", 1)
		}
		if idx%6 == 5 {
			// stagnation until the whole population is delta coded: species that were given no offspring meet the babies of the others
			sc.Fitness = fitStagnating
			sc.Opts.DropOffAge = 1 + c.G.Intn(4)
			sc.Epochs = 40
			c.Count("scenarios.stagnating_until_delta_coding", 1)
		}
		mon := &specMonitor{inEpoch: true}
		runScenario(c, sc, mon)
	}
}

// specMonitor checks every placement at the Speciated hook
type specMonitor struct {
	skipped  bool
	inEpoch  bool
	opts     *neat.Options
	maxId    int
	sc       *EvoScenario
	stop     bool
	lastSeen map[*genetics.Species]bool
	lastPop  *genetics.Population
	// organisms that passed the Speciated observer since the population was constructed / the epoch began
	seen map[*genetics.Organism]bool
}

func (m *specMonitor) install(c *Ctx, opts *neat.Options) {
	m.opts = opts
	genetics.VerifHooks.Speciated = func(p *genetics.Population, org *genetics.Organism) {
		if m.stop {
			return
		}
		m.onPlaced(c, p, org)
	}
}

func (m *specMonitor) onPlaced(c *Ctx, p *genetics.Population, org *genetics.Organism) {
	if p != m.lastPop {
		// another population object (ReadPopulation of the written form of a spawned one): its species are numbered from one
		m.lastPop = p
		m.maxId = 0
	}
	c.Eval(1)
	if m.seen == nil {
		m.seen = map[*genetics.Organism]bool{}
	}
	m.seen[org] = true
	if m.inEpoch {
		c.Count("placed.in_epoch", 1)
	} else if m.sc != nil {
		if m.sc.restoring {
			c.Count("placed.in_constructor.ReadPopulation(mid-run restore)", 1)
		} else {
			c.Count("placed.in_constructor."+ctorNames[m.sc.Ctor], 1)
		}
	} else {
		c.Count("placed.direct", 1)
	}
	c.Count("method."+string(m.opts.GenCompatMethod), 1)
	sp := org.Species
	detail := func() map[string]interface{} {
		d := map[string]interface{}{"threshold": m.opts.CompatThreshold, "method": string(m.opts.GenCompatMethod), "organism": genomeText(org.Genotype)}
		if m.sc != nil {
			d["scenario"] = m.sc.brief()
		}
		return d
	}
	if sp == nil {
		m.stop = true
		c.Violate("no-species", detail(), "organism was not assigned to any species")
		return
	}
	found := false
	for _, s := range p.Species {
		if s == sp {
			found = true
		}
	}
	if !found {
		m.stop = true
		c.Violate("species-not-listed", detail(), "organism's species %d is not listed by the population", sp.Id)
		return
	}
	created := len(sp.Organisms) == 1 && sp.Organisms[0] == org
	recs := geneRecs(org.Genotype)
	thr := m.opts.CompatThreshold
	// Two measures of every distance: the reference formula and the library's own computation. They differ at most in the
	// rounding of the summation order; a placement is wrong only if it is wrong by both (no tolerance constants: a distance
	// exactly equal to the threshold by both measures is "not closer than the threshold").
	type dist struct{ ref, lib float64 }
	var dists []dist
	var chosen dist
	candidates := 0
	for _, s := range p.Species {
		if s == sp && created {
			continue
		}
		if len(s.Organisms) == 0 {
			continue
		}
		rep := s.Organisms[0]
		d, _, _, _ := refCompat(recs, geneRecs(rep.Genotype), m.opts.ExcessCoeff, m.opts.DisjointCoeff, m.opts.MutdiffCoeff)
		dd := dist{d, org.Genotype.VerifCompatibility(rep.Genotype, m.opts)}
		dists = append(dists, dd)
		if dd.ref < thr {
			candidates++
		}
		if s == sp {
			chosen = dd
		}
		if dd.ref == thr && dd.lib == thr {
			c.Count("placed.representative_exactly_at_threshold", 1)
		}
	}
	refs := func() []float64 {
		out := make([]float64, len(dists))
		for i, d := range dists {
			out[i] = d.ref
		}
		return out
	}
	// the library's figure only breaks ties of rounding: where it is not within 1e-9 of the reference formula it is not a
	// measure of the distance at all and the reference decides alone
	near := func(d dist) bool { return math.Abs(d.ref-d.lib) <= 1e-9*math.Max(1, math.Abs(d.ref)) }
	if created {
		for _, d := range dists {
			if d.ref < thr && (d.lib < thr || !near(d)) {
				m.stop = true
				dd := detail()
				dd["distances"] = refs()
				c.Violate("founded-despite-compatible", dd, "a new species %d was founded although a representative is at distance %v < threshold %v", sp.Id, d.ref, thr)
				return
			}
		}
		if sp.Id <= m.maxId {
			m.stop = true
			c.Violate("species-id-not-fresh", detail(), "new species got id %d, ids up to %d were issued before", sp.Id, m.maxId)
			return
		}
		c.Count("placed.founded", 1)
		if len(dists) > 0 {
			m.distinct(c, refs(), thr)
		}
	} else {
		if !(chosen.ref < thr) && !(near(chosen) && chosen.lib < thr) {
			m.stop = true
			dd := detail()
			dd["distances"] = refs()
			c.Violate("joined-incompatible", dd, "organism joined species %d whose representative is at distance %v, not closer than the threshold %v", sp.Id, chosen.ref, thr)
			return
		}
		for _, d := range dists {
			if d.ref < chosen.ref && (d.lib < chosen.lib || !near(d) || !near(chosen)) {
				m.stop = true
				dd := detail()
				dd["distances"] = refs()
				c.Violate("not-nearest", dd, "organism joined species %d at distance %v although another representative is at distance %v", sp.Id, chosen.ref, d.ref)
				return
			}
		}
		if candidates >= 2 {
			c.Count("placed.joined_nearest_of_several", 1)
			m.distinct(c, refs(), thr)
		} else {
			c.Count("placed.joined_only_candidate", 1)
		}
	}
	for _, s := range p.Species {
		if s.Id > m.maxId {
			m.maxId = s.Id
		}
	}
}

func (m *specMonitor) distinct(c *Ctx, dists []float64, thr float64) {
	h := newHasher()
	for _, d := range dists {
		h.u64(fbits(d))
	}
	h.u64(fbits(thr))
	c.Distinct(h.sum())
}

func (m *specMonitor) Constructed(c *Ctx, sc *EvoScenario, pop *genetics.Population) {
	for _, org := range pop.Organisms {
		if len(org.Genotype.Genes) == 0 {
			m.skipped = true
			return
		}
	}
	for _, s := range pop.Species {
		if s.Id > m.maxId {
			m.maxId = s.Id
		}
	}
	m.unobservedPlacements(c, sc, pop)
}

// unobservedPlacements looks at the organisms of a just constructed population that were put into a species without passing
// the Speciated observer (on the unchanged tree there are none: every constructor speciates through Population.speciate).
// For them the end state is checked, which is decidable right after construction because species are numbered in the order
// of their foundation and a representative, once the first member, stays the first member until the first turnover: a
// founder must not be within the threshold of the representative of a species founded earlier, and a member must be within
// the threshold of its own representative and not farther from it than from the representative of a species founded earlier.
func (m *specMonitor) unobservedPlacements(c *Ctx, sc *EvoScenario, pop *genetics.Population) {
	if m.stop {
		return
	}
	thr := m.opts.CompatThreshold
	type dist struct{ ref, lib float64 }
	near := func(d dist) bool { return math.Abs(d.ref-d.lib) <= 1e-9*math.Max(1, math.Abs(d.ref)) }
	measure := func(a, b *genetics.Organism) dist {
		d, _, _, _ := refCompat(geneRecs(a.Genotype), geneRecs(b.Genotype), m.opts.ExcessCoeff, m.opts.DisjointCoeff, m.opts.MutdiffCoeff)
		return dist{d, a.Genotype.VerifCompatibility(b.Genotype, m.opts)}
	}
	for _, org := range pop.Organisms {
		if m.seen[org] {
			continue
		}
		c.Count("placed.without_passing_the_observer", 1)
		c.Eval(1)
		sp := org.Species
		detail := map[string]interface{}{"threshold": thr, "method": string(m.opts.GenCompatMethod), "organism": genomeText(org.Genotype), "scenario": sc.brief(), "key": "end-state"}
		if sp == nil || len(sp.Organisms) == 0 {
			m.stop = true
			c.Violate("no-species", detail, "organism was not assigned to any species")
			return
		}
		founder := sp.Organisms[0] == org
		var own dist
		if !founder {
			own = measure(org, sp.Organisms[0])
			if !(own.ref < thr) && !(near(own) && own.lib < thr) {
				m.stop = true
				c.Violate("joined-incompatible", detail, "after construction species %d holds an organism whose distance to the representative is %v, not closer than the threshold %v", sp.Id, own.ref, thr)
				return
			}
		}
		for _, s := range pop.Species {
			if s.Id >= sp.Id || len(s.Organisms) == 0 {
				continue
			}
			d := measure(org, s.Organisms[0])
			if founder && d.ref < thr && (d.lib < thr || !near(d)) {
				m.stop = true
				c.Violate("founded-despite-compatible", detail, "after construction the founder of species %d is at distance %v < threshold %v of the representative of species %d, which was founded earlier", sp.Id, d.ref, thr, s.Id)
				return
			}
			if !founder && d.ref < own.ref && (d.lib < own.lib || !near(d) || !near(own)) {
				m.stop = true
				c.Violate("not-nearest", detail, "after construction species %d holds an organism at distance %v although the representative of species %d, founded earlier, is at distance %v", sp.Id, own.ref, s.Id, d.ref)
				return
			}
		}
	}
}

// PreConstruct installs the hook before the population is constructed (or restored from its written form), so that the
// speciation done by NewPopulation / NewPopulationRandom / ReadPopulation is monitored as well
func (m *specMonitor) PreConstruct(c *Ctx, sc *EvoScenario) {
	m.sc = sc
	m.maxId = 0 // a new population numbers its species from one
	m.inEpoch = false
	m.seen = map[*genetics.Organism]bool{}
	m.install(c, sc.Opts)
}

func (m *specMonitor) BeforeEpoch(c *Ctx, sc *EvoScenario, gen int, pop *genetics.Population) {
	m.inEpoch = true
	m.opts = sc.Opts // (the options object may have been switched for a changed copy)
	m.seen = map[*genetics.Organism]bool{}
}

func (m *specMonitor) AfterEpoch(c *Ctx, sc *EvoScenario, gen int, pop *genetics.Population, err error) bool {
	if m.skipped || err != nil || m.stop {
		return false
	}
	for _, org := range pop.Organisms {
		if !m.seen[org] {
			// the representatives have changed since (the old generation was removed), the placement cannot be judged afterwards
			c.Inconclusive("generation %d holds an organism that was put into a species without passing the Speciated observer", gen+1)
			m.stop = true
			return false
		}
	}
	if gen == sc.Epochs-1 && c.WantSample() {
		c.Sample(map[string]interface{}{"kind": "in-epoch speciation", "scenario": sc.brief(), "species_at_end": len(pop.Species)})
	}
	return true
}

// c08Direct speciates batches in an order of arrival chosen by the harness and replays the assignment offline
func c08Direct(c *Ctx) {
	defer func() { genetics.VerifHooks = genetics.VerifHookSet{} }()
	r := c.G
	o := genOpts(r)
	if o.DisjointCoeff == 0 && o.ExcessCoeff == 0 {
		o.DisjointCoeff = 1
	}
	f := newFamily(r, o)
	f.grow(r, 100+r.Intn(150))
	// the batch: members and their mutated offspring
	var genomes []*genetics.Genome
	total := 20 + r.Intn(41)
	for len(genomes) < total {
		g := independentCopy(f.pickMember(r), f.newId())
		if r.Intn(2) == 0 {
			_, _ = f.applyMutation(c05Mutators[r.Intn(len(c05Mutators))], g, r)
		}
		if r.Intn(2) == 0 {
			_, _ = g.VerifMutateLinkWeights(1+r.Float64()*2, 1.0, false)
		}
		if len(g.Genes) > 0 {
			genomes = append(genomes, g)
		}
		if len(genomes)%10 == 0 {
			f.grow(r, 10)
		}
	}
	if r.Intn(4) == 0 {
		// one or two organisms without any connection gene, as NewPopulationRandom builds them with a low link probability
		for k := 0; k < 1+r.Intn(2); k++ {
			s := snapGenome(genomes[r.Intn(len(genomes))])
			s.Genes = nil
			s.Id = f.newId()
			genomes = append(genomes, buildFromSnap(s))
		}
		c.Count("batches.with_gene_less_genomes", 1)
	}
	if r.Intn(3) == 0 {
		// strangers: small genomes that have no innovation number in common with anybody (a population put together from
		// several runs, or built by NewPopulationRandom) - their distances are purely structural
		for k := 0; k < 2+r.Intn(3); k++ {
			s := snapGenome(genomes[r.Intn(len(genomes))])
			if keep := 1 + r.Intn(3); len(s.Genes) > keep {
				s.Genes = s.Genes[:keep]
			}
			for i := range s.Genes {
				s.Genes[i].Innov += int64(100000 * (k + 1))
			}
			s.Id = f.newId()
			genomes = append(genomes, buildFromSnap(s))
		}
		c.Count("batches.with_genomes_sharing_no_innovation", 1)
	}
	// threshold at a quantile of the empirical distances
	var ds []float64
	for i := range genomes {
		for j := i + 1; j < len(genomes); j++ {
			d, _, _, _ := refCompat(geneRecs(genomes[i]), geneRecs(genomes[j]), o.ExcessCoeff, o.DisjointCoeff, o.MutdiffCoeff)
			ds = append(ds, d)
		}
	}
	sort.Float64s(ds)
	q := ds[r.Intn(len(ds))]
	o.CompatThreshold = q + pick(r, 0.0, 1e-6, 0.01, 0.1)*(1+q) // offset 0: a distance of the batch is exactly the threshold
	if o.CompatThreshold <= 0 {
		o.CompatThreshold = 0.01
	}
	ctx := o.NeatContext()
	for rep := 0; rep < 3 && !c.Violated(); rep++ {
		r.Shuffle(len(genomes), func(i, j int) { genomes[i], genomes[j] = genomes[j], genomes[i] })
		orgs := make([]*genetics.Organism, len(genomes))
		for i, g := range genomes {
			orgs[i], _ = genetics.NewOrganism(0, g, 1)
		}
		pop := genetics.VerifNewEmptyPopulation(1000, 1000)
		mon := &specMonitor{}
		mon.install(c, o)
		before := make([]uint64, len(orgs))
		for i, og := range orgs {
			before[i] = snapGenome(og.Genotype).fingerprint()
		}
		defer func(orgs []*genetics.Organism) {
			for i, og := range orgs {
				if snapGenome(og.Genotype).fingerprint() != before[i] && !c.Violated() {
					c.Violate("genome-modified", map[string]interface{}{"threshold": o.CompatThreshold}, "speciation modified the genome of organism #%d of the batch", i)
				}
			}
		}(orgs)
		cut := len(orgs) / 2
		if r.Intn(3) == 0 {
			cut = len(orgs)
		}
		if err := pop.VerifSpeciate(ctx, orgs[:cut]); err != nil {
			c.Violate("speciate-error", map[string]interface{}{"threshold": o.CompatThreshold}, "speciate failed: %v", err)
			return
		}
		if cut < len(orgs) {
			// the second batch arrives into existing species
			if err := pop.VerifSpeciate(ctx, orgs[cut:]); err != nil {
				c.Violate("speciate-error", map[string]interface{}{"threshold": o.CompatThreshold}, "speciate failed: %v", err)
				return
			}
			c.Count("batches.into_existing_species", 1)
		}
		if mon.stop {
			return
		}
		// offline reference speciator over the known order of arrival
		type refSp struct {
			rep     []geneRec
			members []*genetics.Organism
		}
		var ref []*refSp
		ambiguous := false
		for _, org := range orgs {
			recs := geneRecs(org.Genotype)
			best, bd := -1, math.Inf(1)
			for k, s := range ref {
				d, _, _, _ := refCompat(recs, s.rep, o.ExcessCoeff, o.DisjointCoeff, o.MutdiffCoeff)
				if closeRel(d, o.CompatThreshold, 1e-9) || (best >= 0 && d < o.CompatThreshold && closeRel(d, bd, 1e-9) && d != bd) {
					ambiguous = true
				}
				if best >= 0 && d < o.CompatThreshold && d == bd {
					// a tie that is exact by the reference formula is a tie for the library only if its own sums agree bit for bit as
					// well (its summation order may differ by an ulp between the two candidates); only then must the first one win
					l1 := org.Genotype.VerifCompatibility(ref[best].members[0].Genotype, o)
					l2 := org.Genotype.VerifCompatibility(s.members[0].Genotype, o)
					if l1 != l2 {
						ambiguous = true
					}
				}
				if d < o.CompatThreshold && d < bd {
					best, bd = k, d
				}
			}
			if best < 0 {
				ref = append(ref, &refSp{rep: recs, members: []*genetics.Organism{org}})
			} else {
				ref[best].members = append(ref[best].members, org)
			}
		}
		if ambiguous {
			c.Count("batches.ambiguous_tie_skipped", 1)
			continue
		}
		c.Count("batches.replayed", 1)
		detail := map[string]interface{}{"threshold": o.CompatThreshold, "method": string(o.GenCompatMethod), "batch": len(orgs), "start": f.StartSrc}
		if len(ref) != len(pop.Species) {
			c.Violate("assignment-differs", detail, "library formed %d species, the reference speciator %d", len(pop.Species), len(ref))
			return
		}
		for k, s := range pop.Species {
			if len(s.Organisms) != len(ref[k].members) {
				// witness: the first organism the two assign differently, with its distances to all representatives by both measures
				inLib := map[*genetics.Organism]int{}
				for kk, ss := range pop.Species {
					for _, og := range ss.Organisms {
						inLib[og] = kk
					}
				}
				for kk, rs := range ref {
					for _, og := range rs.members {
						if inLib[og] != kk && detail["witness"] == nil {
							var dists []string
							for k3, r3 := range ref {
								dr, _, _, _ := refCompat(geneRecs(og.Genotype), r3.rep, o.ExcessCoeff, o.DisjointCoeff, o.MutdiffCoeff)
								dl := og.Genotype.VerifCompatibility(pop.Species[k3].Organisms[0].Genotype, o)
								dists = append(dists, fmt.Sprintf("#%d ref=%v lib=%v genes=%d/%d", k3, dr, dl, len(og.Genotype.Genes), len(r3.rep)))
							}
							detail["witness"] = map[string]interface{}{"reference_species": kk, "library_species": inLib[og], "distances": dists}
						}
					}
				}
				c.Violate("assignment-differs", detail, "species #%d has %d members, the reference speciator gives %d", k, len(s.Organisms), len(ref[k].members))
				return
			}
			for i := range s.Organisms {
				if s.Organisms[i] != ref[k].members[i] {
					c.Violate("assignment-differs", detail, "species #%d member #%d differs from the reference assignment", k, i)
					return
				}
			}
		}
		if c.WantSample() {
			sizes := []int{}
			for _, s := range pop.Species {
				sizes = append(sizes, len(s.Organisms))
			}
			c.Sample(map[string]interface{}{"kind": "direct batch", "batch": len(orgs), "threshold": o.CompatThreshold, "method": string(o.GenCompatMethod), "species_sizes": sizes})
		}
	}
	_ = fmt.Sprint
	_ = rand.Int
}
