package main

import (
	"fmt"
	"runtime"
	"strings"

	"github.com/yaricom/goNEAT/v4/neat/genetics"
)

// C02 - an epoch conserves population size and keeps species a partition.

func init() {
	register(&Prop{
		ID: "C02", Level: "exploration", DesignRef: "DESIGN.md section 4 C02",
		Rule: "one case = one scenario: a population (NewPopulation / NewPopulationRandom / ReadPopulation, size 3..150) turned over " +
			"25-60 times by the sequential or parallel executor under one of 8 fitness shapes and a random option set; after every " +
			"epoch the population monitor checks size, freshness of organisms, the species partition, id uniqueness / non-reuse and ages. " +
			"evaluations = epochs. An epoch is non-trivial if the population has >= 2 species before or after it; distinct by " +
			"(species sizes, ages, population size, fitness shape) signature.",
		Assumptions: []string{"fitness finite, non-negative; 8 shapes incl. values near the top of the float64 range whose sum over the population overflows", "population size 3..150, 25-60 consecutive epochs", "start genomes also with trained weights (tens to hundreds) and innovation numbers beyond 2^53; read populations also from files with repeated genome ids and from dumps by species; every eighth case is followed by a second run on a changed copy of the options, served every other time by the same executor object"},
		Cases: func(tier string) int {
			if tier == "quick" {
				return 384
			}
			return 7200
		},
		Run:      runC02,
		Required: []string{"epochs", "epochs.parallel", "epochs.multi_species", "species.founded", "species.survived", "species.extinct", "scenarios.large_genomes", "scenarios.second_run_served_by_the_same_executor_object"},
	})
}

func runC02(c *Ctx, idx int) {
	sc := genScenario(c.G, true)
	// make the fitness shapes of the statement appear evenly
	sc.Fitness = idx % fitShapes
	if idx%32 == 9 {
		// a small population spawned from a long-evolved genome (more than 500 nodes), a few epochs
		sc.Ctor, sc.Start, sc.StartSrc = ctorSpawn, buildFromSnap(largeGenomeSnap(c.G)), "built: >500 nodes"
		sc.Opts.PopSize = 3 + c.G.Intn(4)
		sc.Opts.BabiesStolen = 0
		sc.Epochs = 3 + c.G.Intn(3)
		sc.RestoreAt = 0
		if c.G.Intn(2) == 0 {
			sc.RestoreAt = 2
		}
		c.Count("scenarios.large_genomes", 1)
	}
	if sc.Parallel {
		// the number of processors the Go runtime may use is a process setting the parallel executor must not depend on
		procs := pick(c.G, 1, 1, 2, 16)
		prev := runtime.GOMAXPROCS(procs)
		defer runtime.GOMAXPROCS(prev)
		c.Count(fmt.Sprintf("scenarios.parallel_gomaxprocs_%d", procs), 1)
	}
	mon := &popMonitor{seenSpecies: map[int]*genetics.Species{}}
	runScenario(c, sc, mon)
	if idx%8 == 6 && !c.Violated() && sc.Ctor != ctorRandom {
		// a second, short run on a changed by-value copy of the options object just used (another population size), with the
		// context that copy hands out itself; every other time the executor object of the first run serves the second one too
		second := *sc.Opts
		second.PopSize = sc.Opts.PopSize + 3 + c.G.Intn(6)
		sc2 := *sc
		sc2.Opts, sc2.Epochs, sc2.RestoreAt, sc2.SwitchOptsAt, sc2.ownContext = &second, 3, 0, 0, true
		c.Count("scenarios.second_run_on_changed_copy_of_options", 1)
		if idx%16 == 6 {
			sc2.executor = nil // an executor of its own
		} else {
			c.Count("scenarios.second_run_served_by_the_same_executor_object", 1)
		}
		runScenario(c, &sc2, &popMonitor{seenSpecies: map[int]*genetics.Species{}})
	}
}

// popMonitor the population monitor
type popMonitor struct {
	skipped     bool
	prevOrgs    map[*genetics.Organism]bool
	pre         []*speciesPre
	seenSpecies map[int]*genetics.Species // every species id ever seen -> the species object
	ctorSpecies map[*genetics.Species]bool
	firstEpoch  bool
	preSnaps    []*SnapGenome
}

func (m *popMonitor) detail(sc *EvoScenario, gen int) map[string]interface{} {
	return map[string]interface{}{"scenario": sc.brief(), "generation": gen}
}

// checkPartition checks the structural invariants which must hold for any population at rest
func (m *popMonitor) checkPartition(c *Ctx, sc *EvoScenario, gen int, pop *genetics.Population) bool {
	if len(pop.Organisms) != sc.Opts.PopSize {
		c.Violate("pop-size", m.detail(sc, gen), "population has %d organisms, configured size is %d", len(pop.Organisms), sc.Opts.PopSize)
		return false
	}
	inPop := map[*genetics.Organism]int{}
	for _, org := range pop.Organisms {
		inPop[org]++
	}
	for org, n := range inPop {
		if n != 1 {
			c.Violate("organism-twice", m.detail(sc, gen), "organism with genome %d is listed %d times in the population", org.Genotype.Id, n)
			return false
		}
	}
	speciesIds := map[int]bool{}
	listed := map[*genetics.Organism]int{}
	for _, s := range pop.Species {
		if len(s.Organisms) == 0 {
			c.Violate("empty-species", m.detail(sc, gen), "species %d is empty", s.Id)
			return false
		}
		if speciesIds[s.Id] {
			c.Violate("species-id-dup", m.detail(sc, gen), "species id %d occurs twice", s.Id)
			return false
		}
		speciesIds[s.Id] = true
		for _, org := range s.Organisms {
			listed[org]++
			if org.Species != s {
				c.Violate("back-pointer", m.detail(sc, gen), "organism listed by species %d points to another species", s.Id)
				return false
			}
			if _, ok := inPop[org]; !ok {
				c.Violate("species-lists-stranger", m.detail(sc, gen), "species %d lists an organism which is not in the population", s.Id)
				return false
			}
		}
	}
	for org := range inPop {
		if listed[org] != 1 {
			c.Violate("partition", m.detail(sc, gen), "organism with genome %d is listed by %d species", org.Genotype.Id, listed[org])
			return false
		}
	}
	return true
}

func (m *popMonitor) Constructed(c *Ctx, sc *EvoScenario, pop *genetics.Population) {
	// a population restored in the middle of a run is a new population: species ids start over
	m.seenSpecies = map[int]*genetics.Species{}
	for _, org := range pop.Organisms {
		if len(org.Genotype.Genes) == 0 {
			m.skipped = true
			c.Count("scenarios.skipped_gene_less_random_genome", 1)
			return
		}
	}
	if !m.checkPartition(c, sc, -1, pop) {
		m.skipped = true
		return
	}
	m.ctorSpecies = map[*genetics.Species]bool{}
	for _, s := range pop.Species {
		m.seenSpecies[s.Id] = s
		m.ctorSpecies[s] = true
	}
	m.firstEpoch = true
	c.Count("populations."+ctorNames[sc.Ctor], 1)
}

func (m *popMonitor) BeforeEpoch(c *Ctx, sc *EvoScenario, gen int, pop *genetics.Population) {
	if m.skipped {
		return
	}
	m.prevOrgs = map[*genetics.Organism]bool{}
	m.preSnaps = nil
	for _, org := range pop.Organisms {
		m.prevOrgs[org] = true
		if sc.Ctor == ctorRandom {
			m.preSnaps = append(m.preSnaps, snapGenome(org.Genotype))
		}
	}
	m.pre = snapSpecies(pop)
}

func (m *popMonitor) AfterEpoch(c *Ctx, sc *EvoScenario, gen int, pop *genetics.Population, err error) bool {
	if m.skipped {
		return false
	}
	if gen < 0 {
		c.Violate("constructor-error", m.detail(sc, gen), "%s failed: %v", ctorNames[sc.Ctor], err)
		return false
	}
	if err != nil {
		d := m.detail(sc, gen)
		msg := firstLine(err.Error())
		if sc.Ctor == ctorRandom && strings.Contains(strings.ToLower(msg), "genes") {
			// is it the recorded finding? only if a pair of pre-epoch genomes reproduces it
			if w := diagnoseGeneLessChild(m.preSnaps); w != nil {
				d["key"] = keyGeneLessChild
				d["witness"] = w
			}
		}
		c.Violate("epoch-error", d, "epoch %d failed: %v", gen, msg)
		return false
	}
	c.Count("epochs", 1)
	c.Count("epochs.fitness."+fitName(sc.Fitness), 1)
	if sc.Parallel {
		c.Count("epochs.parallel", 1)
	}
	if !m.checkPartition(c, sc, gen, pop) {
		return false
	}
	genomeIds := map[int]bool{}
	for _, org := range pop.Organisms {
		if m.prevOrgs[org] {
			c.Violate("old-organism", m.detail(sc, gen), "organism of the previous generation is still in the population")
			return false
		}
		if genomeIds[org.Genotype.Id] {
			c.Violate("genome-id-dup", m.detail(sc, gen), "genome id %d occurs twice", org.Genotype.Id)
			return false
		}
		genomeIds[org.Genotype.Id] = true
	}
	// species ages and ids
	preBy := map[*genetics.Species]*speciesPre{}
	for _, p := range m.pre {
		preBy[p.sp] = p
	}
	founded, survived := 0, 0
	for _, s := range pop.Species {
		if p, ok := preBy[s]; ok {
			survived++
			want := p.age + 1
			if m.firstEpoch && m.ctorSpecies[s] {
				// species created when the population was constructed are not aged by its first turnover
				want = p.age
			}
			if s.Age != want {
				c.Violate("species-age", m.detail(sc, gen), "surviving species %d has age %d, expected %d (was %d before the epoch)", s.Id, s.Age, want, p.age)
				return false
			}
			if s.Id != p.id {
				c.Violate("species-id-changed", m.detail(sc, gen), "species changed its id %d -> %d", p.id, s.Id)
				return false
			}
		} else {
			founded++
			if prev, seen := m.seenSpecies[s.Id]; seen && prev != s {
				c.Violate("species-id-reused", m.detail(sc, gen), "new species reuses id %d of an earlier species", s.Id)
				return false
			}
			if s.Age != 1 {
				c.Violate("new-species-age", m.detail(sc, gen), "species %d founded during the turnover has age %d", s.Id, s.Age)
				return false
			}
		}
		m.seenSpecies[s.Id] = s
	}
	c.Count("species.founded", founded)
	c.Count("species.survived", survived)
	c.Count("species.extinct", len(m.pre)-survived)
	if len(pop.Species) >= 2 || len(m.pre) >= 2 {
		c.Count("epochs.multi_species", 1)
		h := newHasher()
		h.i(sc.Opts.PopSize)
		h.i(sc.Fitness)
		for _, s := range pop.Species {
			h.i(len(s.Organisms))
			h.i(s.Age)
		}
		c.Distinct(h.sum())
	}
	c.Count(fmt.Sprintf("species_count.%s", bucket(len(pop.Species))), 1)
	m.firstEpoch = false
	if gen == sc.Epochs-1 && c.WantSample() {
		sizes := []int{}
		for _, s := range pop.Species {
			sizes = append(sizes, len(s.Organisms))
		}
		c.Sample(map[string]interface{}{"scenario": sc.brief(), "species_sizes_at_end": sizes})
	}
	return true
}

func bucket(n int) string {
	switch {
	case n <= 1:
		return "1"
	case n <= 3:
		return "2-3"
	case n <= 8:
		return "4-8"
	case n <= 20:
		return "9-20"
	default:
		return "21+"
	}
}
