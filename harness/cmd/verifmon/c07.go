package main

import (
	"fmt"
	neatmath "github.com/yaricom/goNEAT/v4/neat/math"
	"math"
	"math/rand"

	"github.com/yaricom/goNEAT/v4/neat"
	"github.com/yaricom/goNEAT/v4/neat/genetics"
	"github.com/yaricom/goNEAT/v4/neat/network"
)

// C07 - compatibility distance equals the NEAT formula under both methods.

func init() {
	register(&Prop{
		ID: "C07", Level: "exploration", DesignRef: "DESIGN.md section 4 C07",
		Rule: "one case = 400 (quick) / 1500 (thorough) pairs of gene lists: synthetic lists built with public constructors (lengths 0..40; " +
			"patterns: empty overlap, interleaved disjoint, long excess tail, strict prefix, identical, single gene, random subsets) with " +
			"random mutation numbers and coefficients in [0,5] incl. zeros, plus pairs of evolved family members; linear(a,b), linear(b,a), " +
			"fast(a,b), fast(b,a) and the dispatching call are compared with an independent implementation of the formula. " +
			"evaluations = pairs. A pair is non-trivial if it has matching, disjoint and excess genes at once; distinct by the " +
			"(innovation lists, coefficients) fingerprint.",
		Assumptions: []string{"gene lists sorted by innovation number, coefficients non-negative", "1e-9 relative tolerance between different summation orders", "lists of 0..40 genes, one pair in 150 of 64..4096; every genome is also measured against the duplicate the library makes of it"},
		Cases: func(tier string) int {
			if tier == "quick" {
				return 2560
			}
			return 38400
		},
		Run:      runC07,
		Required: []string{"pairs.synthetic", "pairs.evolved", "pattern.empty_overlap", "pattern.prefix", "pattern.interleaved", "pattern.identical", "pattern.excess_tail", "pattern.one_empty"},
	})
}

type geneRec struct {
	innov int64
	mut   float64
}

// refCompat is the independent implementation of the formula: E - non-matching genes beyond the other genome's last
// innovation, D - remaining non-matching genes, W - mean mutation difference of matching genes (0 when none match)
func refCompat(a, b []geneRec, ec, dc, mc float64) (value float64, e, d, m int) {
	if len(a) == 0 || len(b) == 0 {
		e = len(a) + len(b)
		return ec * float64(e), e, 0, 0
	}
	la, lb := a[len(a)-1].innov, b[len(b)-1].innov
	lim := la
	if lb < lim {
		lim = lb
	}
	am := map[int64]float64{}
	for _, g := range a {
		am[g.innov] = g.mut
	}
	bm := map[int64]bool{}
	w := 0.0
	for _, g := range b {
		bm[g.innov] = true
		if mu, ok := am[g.innov]; ok {
			m++
			w += math.Abs(mu - g.mut)
		} else if g.innov > lim {
			e++
		} else {
			d++
		}
	}
	for _, g := range a {
		if !bm[g.innov] {
			if g.innov > lim {
				e++
			} else {
				d++
			}
		}
	}
	value = ec*float64(e) + dc*float64(d)
	if m > 0 {
		value += mc * (w / float64(m))
	}
	return value, e, d, m
}

func geneRecs(g *genetics.Genome) []geneRec {
	res := make([]geneRec, len(g.Genes))
	for i, gn := range g.Genes {
		res[i] = geneRec{gn.InnovationNum, gn.MutationNum}
	}
	return res
}

// genomeFromRecs builds a genome whose genes carry given innovation and mutation numbers
func genomeFromRecs(id int, recs []geneRec) *genetics.Genome {
	n1 := network.NewNNode(1, network.InputNeuron)
	n2 := network.NewNNode(2, network.OutputNeuron)
	genes := make([]*genetics.Gene, len(recs))
	for i, r := range recs {
		w := r.mut
		if r.innov%2 == 0 {
			w = r.mut*0.5 + 1 // (the distance is defined over the mutation numbers; a weight need not mirror it in a genome built by hand)
		}
		genes[i] = genetics.NewGene(w, n1, n2, false, r.innov, r.mut)
	}
	return genetics.NewGenome(id, []*neat.Trait{neat.NewTrait()}, []*network.NNode{n1, n2}, genes)
}

func closeRel(a, b, tol float64) bool {
	if a == b {
		return true
	}
	return math.Abs(a-b) <= tol*(1+math.Max(math.Abs(a), math.Abs(b)))
}

func randMut(r *rand.Rand) float64 {
	switch r.Intn(4) {
	case 0:
		return math.Round(r.NormFloat64()*100) / 100
	case 1:
		return r.NormFloat64() * 10
	default:
		return r.Float64()*4 - 2
	}
}

// genSyntheticPair produces two sorted gene lists of the given pattern
func genSyntheticPair(r *rand.Rand) (a, b []geneRec, pattern string) {
	mk := func(innovs []int64) []geneRec {
		res := make([]geneRec, len(innovs))
		for i, in := range innovs {
			res[i] = geneRec{in, randMut(r)}
		}
		return res
	}
	seq := func(from, n int64) []int64 {
		res := make([]int64, n)
		for i := range res {
			res[i] = from + int64(i)
		}
		return res
	}
	n := int64(r.Intn(41))
	if r.Intn(150) == 0 {
		n = pick(r, int64(64), 255, 256, 257, 1000, 4096) // genomes of a long run
		c07LongLists++
	}
	switch p := r.Intn(9); p {
	case 0: // empty overlap, interleaved: odd vs even
		var x, y []int64
		for i := int64(1); i <= n*2; i++ {
			if i%2 == 0 {
				x = append(x, i)
			} else {
				y = append(y, i)
			}
		}
		return mk(x), mk(y), "empty_overlap"
	case 1: // strict prefix
		k := int64(0)
		if n > 0 {
			k = int64(r.Intn(int(n) + 1))
		}
		full := mk(seq(1, n))
		pre := make([]geneRec, k)
		for i := range pre {
			pre[i] = geneRec{full[i].innov, full[i].mut}
			if r.Intn(2) == 0 {
				pre[i].mut = randMut(r)
			}
		}
		if r.Intn(2) == 0 {
			return pre, full, "prefix"
		}
		return full, pre, "prefix"
	case 2: // identical
		full := mk(seq(1+int64(r.Intn(5)), n))
		cp := make([]geneRec, len(full))
		copy(cp, full)
		return full, cp, "identical"
	case 3: // long excess tail
		common := seq(1, int64(r.Intn(6)))
		tail := seq(100, 1+int64(r.Intn(30)))
		x := mk(common)
		y := append(mk(common), mk(tail)...)
		if r.Intn(2) == 0 {
			return x, y, "excess_tail"
		}
		return y, x, "excess_tail"
	case 4: // single gene
		return mk([]int64{int64(1 + r.Intn(5))}), mk(seq(1, n)), "single_gene"
	case 5: // one or both empty
		if r.Intn(3) == 0 {
			return nil, nil, "one_empty"
		}
		if r.Intn(2) == 0 {
			return nil, mk(seq(1, n)), "one_empty"
		}
		return mk(seq(1, n)), nil, "one_empty"
	default: // random subsets of a common innovation range: interleaved disjoint, matching and excess
		span := int64(2 + r.Intn(60))
		pa, pb := 0.2+r.Float64()*0.7, 0.2+r.Float64()*0.7
		var x, y []int64
		for i := int64(1); i <= span; i++ {
			if r.Float64() < pa {
				x = append(x, i)
			}
			if r.Float64() < pb {
				y = append(y, i)
			}
		}
		return mk(x), mk(y), "interleaved"
	}
}

var c07LongLists int

func runC07(c *Ctx, idx int) {
	r := c.G
	n := 400
	if c.Tier == "thorough" {
		n = 1500
	}
	// a family for evolved pairs
	o := genOpts(r)
	f := newFamily(r, o)
	f.grow(r, 150)
	for i := 0; i < n && !c.Violated(); i++ {
		var ga, gb *genetics.Genome
		var ra, rb []geneRec
		pattern := "evolved"
		if i%4 == 3 {
			ga, gb = f.pickMember(r), f.pickMember(r)
			if i%8 == 7 {
				f.grow(r, 10)
			}
			ra, rb = geneRecs(ga), geneRecs(gb)
			c.Count("pairs.evolved", 1)
		} else {
			ra, rb, pattern = genSyntheticPair(r)
			if c07LongLists > 0 {
				c.Count("pairs.gene_lists_of_64_to_4096", c07LongLists)
				c07LongLists = 0
			}
			if r.Intn(10) == 0 {
				// innovation numbers are int64: a population that has issued very many of them (or a file written elsewhere)
				// carries numbers far beyond 2^53
				top := int64(0)
				for _, rec := range append(append([]geneRec{}, ra...), rb...) {
					if rec.innov > top {
						top = rec.innov
					}
				}
				base := pick(r, int64(1)<<53, math.MaxInt64-200)
				if top > 190 {
					base = pick(r, int64(1)<<53, math.MaxInt64-top-10) // (the largest number stays below the maximal int64)
				}
				for i := range ra {
					ra[i].innov += base
				}
				for i := range rb {
					rb[i].innov += base
				}
				c.Count("pairs.huge_innovation_numbers", 1)
			}
			// the genome id is no part of the distance: every fourth pair carries equal ids
			ga, gb = genomeFromRecs(1, ra), genomeFromRecs(pick(r, 2, 2, 2, 1), rb)
			if r.Intn(8) == 0 {
				// two genomes may hold the very same gene objects for the genes they have in common (built by hand from one pool)
				shared := 0
				for i, x := range ga.Genes {
					for j, y := range gb.Genes {
						if x.InnovationNum == y.InnovationNum && fbits(x.MutationNum) == fbits(y.MutationNum) {
							gb.Genes[j] = ga.Genes[i]
							shared++
						}
					}
				}
				if shared > 0 {
					c.Count("pairs.sharing_gene_objects", 1)
				}
			}
			if r.Intn(10) == 0 {
				// modular genomes: a module (control gene) is numbered like a gene but is no connection gene - the distance is defined
				// over the connection genes alone, wherever the module's innovation number lies
				for _, g := range []*genetics.Genome{ga, gb} {
					if len(g.Genes) == 0 || r.Intn(3) == 0 {
						continue
					}
					last := g.Genes[len(g.Genes)-1].InnovationNum
					if last > math.MaxInt64-64 {
						continue
					}
					ctrl := network.NewNNode(1000, network.HiddenNeuron)
					ctrl.ActivationType = neatmath.MultiplyModuleActivation
					ctrl.ConnectFrom(g.Nodes[0], 1.0)
					g.Nodes[1].ConnectFrom(ctrl, 1.0)
					g.ControlGenes = []*genetics.MIMOControlGene{genetics.NewMIMOGene(ctrl, last+int64(1+r.Intn(40)), r.NormFloat64(), r.Intn(4) != 0)}
				}
				c.Count("pairs.with_modules", 1)
			}
			c.Count("pairs.synthetic", 1)
			c.Count("pattern."+pattern, 1)
		}
		opts := *o
		coef := func() float64 {
			switch r.Intn(5) {
			case 0:
				return 0
			case 1:
				return 1
			default:
				return math.Round(r.Float64()*500) / 100
			}
		}
		opts.ExcessCoeff, opts.DisjointCoeff, opts.MutdiffCoeff = coef(), coef(), coef()
		c07Pair(c, ga, gb, ra, rb, &opts, pattern)
	}
}

func c07Pair(c *Ctx, ga, gb *genetics.Genome, ra, rb []geneRec, opts *neat.Options, pattern string) {
	c.Eval(1)
	want, e, d, m := refCompat(ra, rb, opts.ExcessCoeff, opts.DisjointCoeff, opts.MutdiffCoeff)
	type res struct {
		name string
		v    float64
	}
	optsL, optsF := *opts, *opts
	optsL.GenCompatMethod = neat.GenomeCompatibilityMethodLinear
	optsF.GenCompatMethod = neat.GenomeCompatibilityMethodFast
	results := []res{
		{"linear(a,b)", ga.VerifCompatLinear(gb, opts)},
		{"linear(b,a)", gb.VerifCompatLinear(ga, opts)},
		{"fast(a,b)", ga.VerifCompatFast(gb, opts)},
		{"fast(b,a)", gb.VerifCompatFast(ga, opts)},
		{"compatibility[linear](a,b)", ga.VerifCompatibility(gb, &optsL)},
		{"compatibility[fast](a,b)", ga.VerifCompatibility(gb, &optsF)},
	}
	detail := func() map[string]interface{} {
		fmtRecs := func(rs []geneRec) []string {
			out := make([]string, len(rs))
			for i, x := range rs {
				out[i] = fmt.Sprintf("%d:%v", x.innov, x.mut)
			}
			return out
		}
		vals := map[string]float64{}
		for _, x := range results {
			if !math.IsNaN(x.v) && !math.IsInf(x.v, 0) {
				vals[x.name] = x.v
			}
		}
		return map[string]interface{}{"a": fmtRecs(ra), "b": fmtRecs(rb), "excess_coeff": opts.ExcessCoeff, "disjoint_coeff": opts.DisjointCoeff,
			"mutdiff_coeff": opts.MutdiffCoeff, "reference": want, "E": e, "D": d, "M": m, "results": vals, "pattern": pattern}
	}
	// measuring a distance must not change what is measured
	for _, side := range []struct {
		g   *genetics.Genome
		was []geneRec
	}{{ga, ra}, {gb, rb}} {
		now := geneRecs(side.g)
		same := len(now) == len(side.was)
		for i := 0; same && i < len(now); i++ {
			same = now[i].innov == side.was[i].innov && fbits(now[i].mut) == fbits(side.was[i].mut)
		}
		if !same {
			c.Violate("genome-modified", detail(), "computing the compatibility distance modified a genome")
			return
		}
	}
	for _, x := range results {
		if math.IsNaN(x.v) {
			c.Violate("nan", detail(), "%s is NaN (formula gives %v; E=%d D=%d M=%d)", x.name, want, e, d, m)
			return
		}
		if x.v < 0 {
			c.Violate("negative", detail(), "%s = %v is negative", x.name, x.v)
			return
		}
		if !closeRel(x.v, want, 1e-9) {
			c.Violate("formula", detail(), "%s = %v, the formula gives %v (E=%d D=%d M=%d)", x.name, x.v, want, e, d, m)
			return
		}
	}
	if !closeRel(results[0].v, results[1].v, 1e-12) || !closeRel(results[2].v, results[3].v, 1e-12) {
		c.Violate("asymmetric", detail(), "distance is not symmetric: linear %v / %v, fast %v / %v", results[0].v, results[1].v, results[2].v, results[3].v)
		return
	}
	// a genome against itself and against its (independently built) duplicate
	if len(ra) > 0 {
		dup := genomeFromRecs(3, ra)
		if ga.Genes != nil && len(ga.Nodes) > 2 {
			dup = independentCopy(ga, 3)
		}
		checks := []res{{"linear(a,a)", ga.VerifCompatLinear(ga, opts)}, {"fast(a,a)", ga.VerifCompatFast(ga, opts)},
			{"linear(a,dup)", ga.VerifCompatLinear(dup, opts)}, {"fast(a,dup)", ga.VerifCompatFast(dup, opts)}}
		// ... and against the duplicate the library itself makes of it (the statement speaks of that one)
		if own, derr := ga.VerifDuplicate(4); derr == nil && own != nil {
			checks = append(checks, res{"linear(a, a's own duplicate)", ga.VerifCompatLinear(own, opts)}, res{"fast(a's own duplicate, a)", own.VerifCompatFast(ga, opts)})
			c.Count("pairs.with_the_librarys_duplicate", 1)
		}
		for _, v := range checks {
			if v.v != 0 {
				c.Violate("self-distance", detail(), "%s = %v, expected 0", v.name, v.v)
				return
			}
		}
	}
	if e > 0 && d > 0 && m > 0 {
		h := newHasher()
		for _, x := range ra {
			h.u64(uint64(x.innov))
		}
		h.i(-1)
		for _, x := range rb {
			h.u64(uint64(x.innov))
		}
		h.u64(fbits(opts.ExcessCoeff))
		h.u64(fbits(opts.DisjointCoeff))
		h.u64(fbits(opts.MutdiffCoeff))
		c.Distinct(h.sum())
		if c.WantSample() {
			c.Sample(detail())
		}
	}
}
