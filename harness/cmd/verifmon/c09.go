package main

import (
	"fmt"
	"math"
	"sync"

	"github.com/yaricom/goNEAT/v4/neat/genetics"
)

// C09 - offspring quotas follow shared fitness and total the population size.
// C10 - the champion of every sizeable species survives the epoch unchanged.
// Both ride on the same hook monitor (Prepared / ReproduceEnd) with different assertions switched on.

func init() {
	register(&Prop{
		ID: "C09", Level: "exploration", DesignRef: "DESIGN.md section 4 C09",
		Rule: "one case = one scenario of 25-60 real epochs (both executors) with at least one positive fitness value per epoch; the monitor " +
			"snapshots fitness, membership and ages before the epoch and at the Prepared hook recomputes the adjusted fitness, every " +
			"organism's expected offspring, the quotas with carried fractions, the parent pools, and checks that the quotas total the " +
			"population size (also after stealing / delta coding); at ReproduceEnd the number of babies is compared with the quota. " +
			"evaluations = epochs. An epoch is non-trivial if it has >= 2 species with quota > 0; distinct by (quotas, sizes) signature.",
		Assumptions: []string{"fitness finite, non-negative, <= 1e12, at least one positive value per epoch",
			"the age adjustment is the library's documented rule: x0.01 once (age - age_of_last_improvement + 1) >= dropoff_age, x age_significance up to age 10, divided by the species size"},
		Cases: func(tier string) int {
			if tier == "quick" {
				return 384
			}
			return 7200
		},
		Run: func(c *Ctx, idx int) { runQuota(c, idx, false) },
		Required: []string{"epochs", "epochs.plain_quota_checked", "epochs.delta_coding", "epochs.stolen", "epochs.makeup", "species.zero_quota",
			"species.stagnation_penalty", "species.youth_boost", "pools.checked", "pools.unchanged_at_reproduction", "epochs.parallel"},
	})
	register(&Prop{
		ID: "C10", Level: "exploration", DesignRef: "DESIGN.md section 4 C10",
		Rule: "one case = one scenario of 25-60 real epochs (both executors; stolen babies, delta coding, toggle / re-enable / add-node rates up " +
			"so that champions carry disabled and recurrent genes) with distinct positive fitness values; at the Prepared hook the genome " +
			"of the fittest member of every species whose quota exceeds five is snapshotted independently and after the epoch a genome " +
			"equal to it in everything but the id must exist in the new generation. evaluations = epochs driven + champions checked. A champion is " +
			"non-trivial if its genome has a disabled or a recurrent gene; distinct by fingerprint.",
		Assumptions: []string{"fitness values distinct and positive, so that the fittest member is unique"},
		Cases: func(tier string) int {
			if tier == "quick" {
				return 384
			}
			return 7200
		},
		Run:      func(c *Ctx, idx int) { runQuota(c, idx, true) },
		Required: []string{"champions", "champions.with_disabled", "champions.super_champ_branch", "champions.parallel", "champions.quota_6_to_8", "champions.delta_coding"},
	})
}

func runQuota(c *Ctx, idx int, champions bool) {
	r := c.G
	sc := genScenario(r, true)
	sc.Parallel = idx%3 == 2
	if champions {
		sc.Fitness = pick(r, fitDistinct, fitDistinct, fitStagnating)
		sc.Opts.MutateToggleEnableProb = 0.2 + r.Float64()*0.6
		sc.Opts.MutateGeneReenableProb = r.Float64() * 0.4
		sc.Opts.MutateAddNodeProb = 0.1 + r.Float64()*0.3
		if sc.Opts.PopSize < 13 {
			sc.Opts.PopSize = pick(r, 13, 20, 33, 50, 80)
			if sc.Opts.BabiesStolen > sc.Opts.PopSize/2 {
				sc.Opts.BabiesStolen = sc.Opts.PopSize / 2
			}
		}
	} else {
		sc.Fitness = pick(r, fitConstant, fitUniform, fitLogNormal, fitDominant, fitStagnating, fitDistinct, fitStagnating)
	}
	if idx%5 == 3 {
		sc.SwitchOptsAt = 2 + r.Intn(sc.Epochs-2)
	}
	if !champions && idx%7 == 2 {
		sc.Fitness = fitTiny
	}
	if !champions && idx%7 == 4 {
		sc.Fitness = fitZeroSpecies
		sc.Opts.CompatThreshold = pick(r, 0.3, 1.0, 2.0) // several species
	}
	if champions && idx%8 == 6 && sc.Ctor != ctorRandom {
		// a start genome whose traits are listed 1,3,2 (first the smallest id, the others in any order - the layout of the
		// library's own test fixture): trait references are resolved by id
		sg := snapGenome(buildGenome(r, func() genomeSpec { sp := genSpec(r); sp.Traits = 3 + r.Intn(2); sp.TraitBase = 1; return sp }(), 1))
		rest := sg.Traits[1:]
		r.Shuffle(len(rest), func(i, j int) { rest[i], rest[j] = rest[j], rest[i] })
		sc.Ctor, sc.Start, sc.StartSrc = ctorSpawn, buildFromSnap(sg), "built: traits listed 1,3,2"
		sc.Opts.MutateNodeTraitProb = 0.5
	}
	if champions && idx%8 == 3 {
		sc.Fitness = fitOldGuard
		sc.Opts.DropOffAge = 2 + r.Intn(3)
		sc.Opts.BabiesStolen = pick(r, sc.Opts.PopSize/2, sc.Opts.PopSize/3)
		sc.Opts.CompatThreshold = pick(r, 0.6, 1.0, 2.0, 3.0)
		sc.Epochs = 40 + r.Intn(20)
	}
	if champions && idx%8 == 7 {
		sc.Fitness = fitFewRisers
		// (delta coding wipes the rising species five epochs after the leaders began to die; babies are stolen only from species
		// older than five epochs: a drop-off age of five and more gives the whole window)
		sc.Opts.DropOffAge = 5 + r.Intn(3)
		sc.Opts.CompatThreshold = pick(r, 2.0, 3.0, 5.0) // few species, so that they hold quotas worth stealing
		if sc.Opts.PopSize < 50 {
			sc.Opts.PopSize = pick(r, 50, 80)
		}
		sc.Opts.BabiesStolen = pick(r, sc.Opts.PopSize/2, sc.Opts.PopSize/3, 2*sc.Opts.PopSize/3)
		sc.Epochs = 40 + r.Intn(20)
	}
	if champions && idx%16 == 12 {
		// a population spawned from the shipped modular genome (rewired; one module in four switched off), asexual reproduction
		// (the crossovers pile up the modules of both parents): the champion's modules are copied with their enabled flags
		mg, err := loadShippedGenome(modularGenomeFile)
		if err != nil {
			panic("harness: " + err.Error())
		}
		ms := snapGenome(mg)
		modularVariants(r, ms)
		ms.Modules[r.Intn(len(ms.Modules))].En = false
		sc.Ctor, sc.Start, sc.StartSrc = ctorSpawn, buildFromSnap(ms), "file:"+modularGenomeFile+" (modular, rewired, a module off)"
		sc.Opts.MutateOnlyProb = 1
		sc.RestoreAt = 0
		// (sequential executor: the parallel one ships offspring in the plain genome encoding, which has no notation for modules)
		sc.Parallel = false
		if sc.Epochs > 15 {
			sc.Epochs = 15
		}
		c.Count("scenarios.modular_start_genome", 1)
	}
	if champions && idx%5 == 1 {
		// weights far beyond the usual range (a long run, a strong mutation power): the champion is copied all the same
		sc.Opts.WeightMutPower = pick(r, 60.0, 400.0)
	}
	if idx%4 == 1 {
		// force delta coding: short drop-off and stagnating fitness
		sc.Fitness = fitStagnating
		sc.Opts.DropOffAge = 1 + r.Intn(5)
		sc.Epochs = 40 + r.Intn(20)
		if r.Intn(2) == 0 {
			// many stolen babies while the leading species stagnate (the epochs between the species' drop-off age and the
			// delta coding of the whole population): large left-overs to hand out
			sc.Opts.BabiesStolen = pick(r, sc.Opts.PopSize/2, sc.Opts.PopSize/3, sc.Opts.PopSize/4)
			sc.Opts.CompatThreshold = pick(r, 0.3, 1.0, 2.0)
		}
	}
	if champions && idx%8 == 2 {
		// a population read from a hand-edited file in which every genome lists a hidden neuron that no gene refers to (genomes
		// that were not born through the library's copier), few species: the champions of the first turnovers carry that neuron
		sc.Ctor, sc.IsolatedNeuron, sc.BySpeciesFactor = ctorRead, true, 0
		sc.Opts.CompatThreshold = pick(r, 1e6, 6.0, 3.0)
		if sc.Opts.PopSize < 20 {
			sc.Opts.PopSize = pick(r, 20, 33, 50)
			if sc.Opts.BabiesStolen > sc.Opts.PopSize/2 {
				sc.Opts.BabiesStolen = sc.Opts.PopSize / 2
			}
		}
		c.Count("scenarios.genomes_with_a_hidden_neuron_no_gene_refers_to", 1)
	}
	mon := &quotaMonitor{champions: champions}
	runScenario(c, sc, mon)
}

type orgPre struct {
	org     *genetics.Organism
	fitness float64
	adj     float64
}

type quotaSpeciesPre struct {
	sp      *genetics.Species
	age     int
	lastImp int
	members []*orgPre
}

type champSnap struct {
	speciesId int
	quota     int
	snap      *SnapGenome
	super     bool
}

type quotaMonitor struct {
	champions bool
	skipped   bool
	stop      bool
	sc        *EvoScenario
	gen       int
	pre       []*quotaSpeciesPre
	preBy     map[*genetics.Species]*quotaSpeciesPre
	prevHigh  float64
	prevEp    int
	mu        sync.Mutex
	quotas    map[*genetics.Species]int
	babies    map[*genetics.Species]int
	champs    []*champSnap
	delta     bool
	pools     map[*genetics.Species]map[*genetics.Organism]bool
}

func (m *quotaMonitor) detail() map[string]interface{} {
	return map[string]interface{}{"scenario": m.sc.brief(), "generation": m.gen}
}

func (m *quotaMonitor) Constructed(c *Ctx, sc *EvoScenario, pop *genetics.Population) {
	for _, org := range pop.Organisms {
		if len(org.Genotype.Genes) == 0 {
			m.skipped = true
			return
		}
	}
	m.sc = sc
	genetics.VerifHooks.Prepared = func(p *genetics.Population, sorted []*genetics.Species, generation int) {
		if !m.stop {
			m.onPrepared(c, p, sorted)
		}
	}
	genetics.VerifHooks.ReproduceEnd = func(s *genetics.Species, p *genetics.Population, babies []*genetics.Organism) {
		m.mu.Lock()
		m.babies[s] += len(babies)
		m.mu.Unlock()
	}
	genetics.VerifHooks.ReproduceStart = func(s *genetics.Species, p *genetics.Population, generation int) {
		// the parents a species draws from are the pool that was cut when the epoch was prepared - nothing joins or leaves
		// it before the species reproduces
		m.mu.Lock()
		defer m.mu.Unlock()
		pool, ok := m.pools[s]
		if !ok || m.stop || m.champions {
			return
		}
		same := len(pool) == len(s.Organisms)
		for _, og := range s.Organisms {
			same = same && pool[og]
		}
		if !same {
			m.stop = true
			d := m.detail()
			d["species"] = s.Id
			c.Violate("parent-pool-changed", d, "species %d starts to reproduce with %d organisms to draw parents from, its parent pool had %d when the epoch was prepared", s.Id, len(s.Organisms), len(pool))
		}
		c.Count("pools.unchanged_at_reproduction", 1)
	}
}

func (m *quotaMonitor) BeforeEpoch(c *Ctx, sc *EvoScenario, gen int, pop *genetics.Population) {
	if m.skipped {
		return
	}
	m.gen = gen
	m.pre = nil
	m.preBy = map[*genetics.Species]*quotaSpeciesPre{}
	m.babies = map[*genetics.Species]int{}
	m.quotas = map[*genetics.Species]int{}
	m.champs = nil
	m.delta = false
	m.mu.Lock()
	m.pools = map[*genetics.Species]map[*genetics.Organism]bool{}
	m.mu.Unlock()
	for _, s := range pop.Species {
		p := &quotaSpeciesPre{sp: s, age: s.Age, lastImp: s.AgeOfLastImprovement}
		for _, o := range s.Organisms {
			p.members = append(p.members, &orgPre{org: o, fitness: o.Fitness})
		}
		m.pre = append(m.pre, p)
		m.preBy[s] = p
	}
	m.prevHigh, m.prevEp = pop.HighestFitness, pop.EpochsHighestLastChanged
}

func nearInt(x float64) bool {
	return math.Abs(x-math.Round(x)) <= 1e-7*(1+math.Abs(x))
}

func (m *quotaMonitor) onPrepared(c *Ctx, p *genetics.Population, sorted []*genetics.Species) {
	o := m.sc.Opts
	anyPositive := false
	// (1) adjusted fitness from the snapshot
	total, n := 0.0, 0
	for _, sp := range m.pre {
		debt := (sp.age - sp.lastImp + 1) - o.DropOffAge
		if debt == 0 {
			debt = 1
		}
		if debt >= 1 {
			c.Count("species.stagnation_penalty", 1)
		}
		if sp.age <= 10 && o.AgeSignificance != 1 {
			c.Count("species.youth_boost", 1)
		}
		for _, og := range sp.members {
			f := og.fitness
			if f > 0 {
				anyPositive = true
			}
			if debt >= 1 {
				f *= 0.01
			}
			if sp.age <= 10 {
				f *= o.AgeSignificance
			}
			f /= float64(len(sp.members))
			og.adj = f
			total += f
			n++
		}
	}
	mean := total / float64(n)
	// which species survived the zero-quota purge: exactly those listed by the population now
	alive := map[*genetics.Species]bool{}
	for _, s := range p.Species {
		alive[s] = true
	}
	// delta coding is decided by the library from the best raw fitness among the surviving species
	best := 0.0
	for _, sp := range m.pre {
		if alive[sp.sp] {
			for _, og := range sp.members {
				if og.fitness > best {
					best = og.fitness
				}
			}
		}
	}
	ep := m.prevEp + 1
	if best > m.prevHigh {
		ep = 0
	}
	m.delta = ep >= o.DropOffAge+5
	stolen := !m.delta && o.BabiesStolen > 0
	if m.delta {
		c.Count("epochs.delta_coding", 1)
	}
	if stolen {
		c.Count("epochs.stolen", 1)
	}

	sumQuota := 0
	for _, sp := range m.pre {
		q := sp.sp.ExpectedOffspring
		m.quotas[sp.sp] = q
		if !alive[sp.sp] {
			c.Count("species.zero_quota", 1)
			if q != 0 && !m.champions {
				m.stop = true
				c.Violate("purged-with-quota", m.detail(), "species %d was removed before reproduction although its quota is %d", sp.sp.Id, q)
				return
			}
		}
		sumQuota += q
	}
	if m.champions {
		m.snapChampions(c, p)
		return
	}
	if !anyPositive || !(mean > 0) {
		c.Count("epochs.skipped_no_positive_fitness", 1)
		return
	}
	// expected offspring of every organism
	for _, sp := range m.pre {
		for _, og := range sp.members {
			want := og.adj / mean
			if !closeRel(og.org.ExpectedOffspring, want, 1e-9) {
				m.stop = true
				d := m.detail()
				d["species"] = sp.sp.Id
				d["species_size"] = len(sp.members)
				d["species_age"] = sp.age
				d["age_of_last_improvement"] = sp.lastImp
				d["fitness"] = og.fitness
				c.Violate("expected-offspring", d, "organism's expected offspring is %v, its shared age-adjusted fitness / population mean gives %v", og.org.ExpectedOffspring, want)
				return
			}
		}
	}
	// (3) the quotas total the population size, always
	if sumQuota != o.PopSize {
		m.stop = true
		d := m.detail()
		d["delta_coding"] = m.delta
		d["stolen"] = stolen
		c.Violate("quota-total", d, "offspring quotas total %d, the population size is %d (delta coding: %v, babies stolen: %v)", sumQuota, o.PopSize, m.delta, stolen)
		return
	}
	// (2) quotas follow the sums with carried fractions (epochs without stealing and delta coding)
	if !m.delta && !stolen {
		c.Count("epochs.plain_quota_checked", 1)
		cum := 0.0
		floorSum := 0
		type row struct {
			sp           *quotaSpeciesPre
			sumExp       float64
			floorQuota   int
			slack        int
			quota        int
			nearBoundary bool
		}
		var rows []*row
		for _, sp := range m.pre {
			a := cum
			s := 0.0
			for _, og := range sp.members {
				s += og.adj / mean
			}
			cum += s
			fq := int(math.Floor(cum)) - int(math.Floor(a))
			rw := &row{sp: sp, sumExp: s, floorQuota: fq, quota: sp.sp.ExpectedOffspring}
			if nearInt(a) {
				rw.slack++
			}
			if nearInt(cum) {
				rw.slack++
			}
			rows = append(rows, rw)
			floorSum += fq
		}
		// the statement's bound: quota differs from the sum by less than one, plus one make-up offspring for one species
		over := 0
		for _, rw := range rows {
			d := float64(rw.quota) - rw.sumExp
			if d <= -1-1e-6 || d >= 2+1e-6 {
				m.stop = true
				dd := m.detail()
				dd["species"] = rw.sp.sp.Id
				c.Violate("quota-vs-sum", dd, "species %d has quota %d, the sum of its members' expected offspring is %v", rw.sp.sp.Id, rw.quota, rw.sumExp)
				return
			}
			if d >= 1+1e-6 {
				over++
			}
		}
		if over > 1 {
			m.stop = true
			c.Violate("quota-makeup", m.detail(), "%d species received more than their sum of expected offspring plus one", over)
			return
		}
		// carried fractions: quota = floor(cumulative sum) - floor(previous cumulative sum), up to one make-up offspring
		makeups := 0
		for _, rw := range rows {
			diff := rw.quota - rw.floorQuota
			if diff < 0 {
				diff = -diff
			} else if diff > 0 {
				makeups += diff
			}
			if diff > rw.slack+1 {
				m.stop = true
				dd := m.detail()
				dd["species"] = rw.sp.sp.Id
				c.Violate("quota-carry", dd, "species %d has quota %d, rounding down with carried fractions gives %d (sum of expected %v)", rw.sp.sp.Id, rw.quota, rw.floorQuota, rw.sumExp)
				return
			}
		}
		if over == 1 || floorSum < o.PopSize {
			c.Count("epochs.makeup", 1)
		}
	}
	// (4) parent pools
	for _, s := range p.Species {
		sp := m.preBy[s]
		if sp == nil {
			continue
		}
		nmem := len(sp.members)
		// floor(survival_thresh*n)+1; the only latitude is the rounding of the floating-point product itself: when it lies
		// within 4 ulp of an integer the neighbouring value is accepted too (survival_thresh*n + 1.0 may round across it)
		x := o.SurvivalThresh * float64(nmem)
		want := int(math.Floor(x)) + 1
		alt := int(math.Floor(x + 1.0))
		if rx := math.Round(x); rx != x && math.Abs(x-rx) <= 4e-16*math.Max(1, math.Abs(x)) {
			alt = int(rx) + 1
		}
		if want > nmem {
			want = nmem
		}
		if alt > nmem {
			alt = nmem
		}
		got := len(s.Organisms)
		okSize := got == want || got == alt
		if !okSize {
			m.stop = true
			dd := m.detail()
			dd["species"] = s.Id
			c.Violate("parent-pool-size", dd, "species %d of %d members keeps %d parents, floor(%v*%d)+1 = %d", s.Id, nmem, got, o.SurvivalThresh, nmem, want)
			return
		}
		c.Count("pools.checked", 1)
		pool := map[*genetics.Organism]bool{}
		for _, og := range s.Organisms {
			pool[og] = true
		}
		m.mu.Lock()
		m.pools[s] = pool
		m.mu.Unlock()
		inPool := map[*genetics.Organism]bool{}
		minPool := math.Inf(1)
		for _, og := range s.Organisms {
			inPool[og] = true
		}
		for _, og := range sp.members {
			if inPool[og.org] && og.adj < minPool {
				minPool = og.adj
			}
		}
		for _, og := range sp.members {
			if !inPool[og.org] && og.adj > minPool {
				m.stop = true
				dd := m.detail()
				dd["species"] = s.Id
				c.Violate("parent-pool-order", dd, "species %d excluded a member with shared fitness %v while a parent has %v", s.Id, og.adj, minPool)
				return
			}
		}
		if got < nmem {
			c.Count("pools.truncated", 1)
		}
	}
	// distinct signature
	live := 0
	h := newHasher()
	for _, sp := range m.pre {
		if sp.sp.ExpectedOffspring > 0 {
			live++
		}
		h.i(sp.sp.ExpectedOffspring)
		h.i(len(sp.members))
	}
	if live >= 2 {
		c.Distinct(h.sum())
	}
}

func (m *quotaMonitor) snapChampions(c *Ctx, p *genetics.Population) {
	for _, s := range p.Species {
		if s.ExpectedOffspring <= 5 {
			continue
		}
		sp := m.preBy[s]
		if sp == nil || len(sp.members) == 0 {
			continue
		}
		best := sp.members[0]
		for _, og := range sp.members {
			if og.fitness > best.fitness {
				best = og
			}
		}
		super := best.org.VerifState().SuperChampOffspring > 0
		m.champs = append(m.champs, &champSnap{speciesId: s.Id, quota: s.ExpectedOffspring, snap: snapGenome(best.org.Genotype), super: super})
	}
}

func (m *quotaMonitor) AfterEpoch(c *Ctx, sc *EvoScenario, gen int, pop *genetics.Population, err error) bool {
	if m.skipped || err != nil || m.stop || gen < 0 {
		return false
	}
	c.Count("epochs", 1)
	if sc.Parallel {
		c.Count("epochs.parallel", 1)
	}
	if m.champions {
		if len(m.champs) == 0 {
			return true
		}
		fps := map[uint64][]*SnapGenome{}
		for _, org := range pop.Organisms {
			s := snapGenome(org.Genotype)
			fps[s.fingerprint()] = append(fps[s.fingerprint()], s)
		}
		for _, ch := range m.champs {
			c.Eval(1)
			c.Count("champions", 1)
			found := false
			for _, cand := range fps[ch.snap.fingerprint()] {
				if diffGenomes(ch.snap, cand) == "" {
					found = true
					break
				}
			}
			if !found {
				d := m.detail()
				d["species"] = ch.speciesId
				d["quota"] = ch.quota
				d["champion"] = ch.snap
				d["super_champion"] = ch.super
				// the nearest genome of the new generation helps to read the witness
				bestDiff := ""
				for _, org := range pop.Organisms {
					s := snapGenome(org.Genotype)
					if s.structFingerprint() == ch.snap.structFingerprint() || len(s.Genes) == len(ch.snap.Genes) {
						if df := diffGenomes(ch.snap, s); bestDiff == "" || len(df) < len(bestDiff) {
							bestDiff = df
						}
					}
				}
				d["nearest_difference"] = bestDiff
				c.Violate("champion-lost", d, "no unmodified copy of the champion of species %d (quota %d) exists in the next generation; nearest: %s", ch.speciesId, ch.quota, bestDiff)
				return false
			}
			if ch.snap.countDisabled() > 0 {
				c.Count("champions.with_disabled", 1)
			}
			if ch.snap.countRecurrent() > 0 {
				c.Count("champions.with_recurrent", 1)
			}
			if ch.super {
				c.Count("champions.super_champ_branch", 1)
			}
			if sc.Parallel {
				c.Count("champions.parallel", 1)
			}
			if ch.quota <= 8 {
				c.Count("champions.quota_6_to_8", 1)
			}
			if m.delta {
				c.Count("champions.delta_coding", 1)
			}
			if ch.snap.countDisabled() > 0 || ch.snap.countRecurrent() > 0 {
				c.Distinct(ch.snap.fingerprint())
			}
			if c.WantSample() && ch.snap.countDisabled() > 0 {
				c.Sample(map[string]interface{}{"scenario": sc.brief(), "generation": gen, "species": ch.speciesId, "quota": ch.quota, "champion": ch.snap.brief()})
			}
		}
		return true
	}
	// (5) babies per species equal the quota, species with zero quota produce nothing
	for _, sp := range m.pre {
		c.Eval(0)
		q, ok := m.quotas[sp.sp]
		if !ok {
			continue
		}
		if got := m.babies[sp.sp]; got != q {
			d := m.detail()
			d["species"] = sp.sp.Id
			c.Violate("babies-vs-quota", d, "species %d produced %d babies, its quota is %d", sp.sp.Id, got, q)
			return false
		}
	}
	if gen == sc.Epochs-1 && c.WantSample() {
		qs := []string{}
		for _, sp := range m.pre {
			qs = append(qs, fmt.Sprintf("%d/%d", sp.sp.ExpectedOffspring, len(sp.members)))
		}
		c.Sample(map[string]interface{}{"scenario": sc.brief(), "last_epoch_quota_per_size": qs, "delta_coding": m.delta})
	}
	return true
}
