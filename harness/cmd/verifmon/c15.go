package main

import (
	"bytes"
	"encoding/gob"
	"fmt"
	"math"
	"math/rand"
	"sync"

	"github.com/yaricom/goNEAT/v4/experiment"
	"github.com/yaricom/goNEAT/v4/neat/genetics"
	neatmath "github.com/yaricom/goNEAT/v4/neat/math"
	"github.com/yaricom/goNEAT/v4/neat/network"
)

// C15 - everything the library writes it reads back unchanged.

func init() {
	register(&Prop{
		ID: "C15", Level: "exploration", DesignRef: "DESIGN.md section 4 C15",
		Rule: "one case = a pool of evolved genomes whose weights / mutation numbers / trait parameters were fuzzed (normal, 1e+-200, subnormal, " +
			"integer-valued, long mantissas), every registered scalar activation type on hidden nodes, nil traits, disabled and recurrent " +
			"genes; per genome: plain and YAML encodings, Organism.MarshalBinary / UnmarshalBinary (one by one, and a whole batch marshalled before any is restored) and gob; per case: Population.Write + " +
			"ReadPopulation (3-60 genomes), modular genomes in YAML, fast solver WriteModel + ReadFMNSModel (5 input vectors, forward and " +
			"recursive activation, incl. modules), synthetic experiments Write + Read with all derived statistics. All comparisons by " +
			"independent snapshots, bit-exact. evaluations = round trips. A round trip is non-trivial if the artefact contains a disabled " +
			"gene or a non-default activation type or a module; distinct by fingerprint.",
		Assumptions: []string{"finite weights, no negative zero", "module link weights are 1.0 (all the YAML format expresses)", "every generation of an experiment has a champion"},
		Cases: func(tier string) int {
			if tier == "quick" {
				return 1920
			}
			return 28800
		},
		Run: runC15,
		Required: []string{"roundtrip.plain", "roundtrip.yaml", "roundtrip.yaml_modular", "roundtrip.organism_binary", "roundtrip.organism_binary_batched", "roundtrip.organism_gob",
			"roundtrip.population", "roundtrip.solver_model", "roundtrip.solver_model_modular", "roundtrip.experiment", "roundtrip.large_genome", "weights.extreme"},
	})
}

func fuzzFloat(r *rand.Rand) float64 {
	switch r.Intn(9) {
	case 0:
		return math.Pow(10, 150+r.Float64()*100) * float64(1-2*r.Intn(2))
	case 1:
		return math.Pow(10, -150-r.Float64()*100) * float64(1-2*r.Intn(2))
	case 2:
		return math.Float64frombits(uint64(1 + r.Intn(1<<20))) // subnormal
	case 3:
		return float64(r.Intn(2000) - 1000)
	case 4:
		return 0
	case 5:
		return math.Nextafter(r.NormFloat64(), math.Inf(1))
	default:
		return r.NormFloat64() * 3
	}
}

// fuzzGenome returns an independently built copy of the genome with fuzzed parameters
func fuzzGenome(r *rand.Rand, g *genetics.Genome, id int) (*genetics.Genome, *SnapGenome) {
	s := snapGenome(g)
	s.Id = id
	for i := range s.Genes {
		if r.Intn(2) == 0 {
			s.Genes[i].W = fbits(fuzzFloat(r))
		}
		if r.Intn(2) == 0 {
			s.Genes[i].Mut = fbits(fuzzFloat(r))
		}
		if r.Intn(5) == 0 {
			s.Genes[i].TraitId = 0
		}
	}
	for i := range s.Traits {
		for j := range s.Traits[i].Params {
			if r.Intn(3) == 0 {
				s.Traits[i].Params[j] = fbits(math.Abs(fuzzFloat(r)))
			}
		}
	}
	for i := range s.Nodes {
		if s.Nodes[i].Neuron == byte(network.HiddenNeuron) || s.Nodes[i].Neuron == byte(network.OutputNeuron) {
			if r.Intn(2) == 0 {
				s.Nodes[i].Act = byte(scalarActivations[r.Intn(len(scalarActivations))])
			}
			if r.Intn(12) == 0 {
				s.Nodes[i].Act = byte(c15CustomActivation)
			}
			if late := r.Intn(12) == 0; late && c15LateRegistered {
				s.Nodes[i].Act = byte(c15LateActivation)
			}
		}
		if r.Intn(4) == 0 {
			s.Nodes[i].TraitId = 0
		}
	}
	if len(s.Modules) == 0 && len(s.Nodes) > 0 && r.Intn(10) == 0 {
		// nodes numbered from zero (ids only have to be unique and ascending; applications that number from zero exist)
		min := s.Nodes[0].Id
		for _, n := range s.Nodes {
			if n.Id < min {
				min = n.Id
			}
		}
		for i := range s.Nodes {
			s.Nodes[i].Id -= min
		}
		for i := range s.Genes {
			s.Genes[i].In -= min
			s.Genes[i].Out -= min
		}
		c15ZeroBased++
	}
	return buildFromSnap(s), s
}

var c15ZeroBased int

func hasExtreme(s *SnapGenome) bool {
	for _, g := range s.Genes {
		w := math.Abs(bitsf(g.W))
		if w != 0 && (w > 1e100 || w < 1e-100) {
			return true
		}
	}
	return false
}

func nontrivialArtefact(s *SnapGenome) bool {
	if s.countDisabled() > 0 || len(s.Modules) > 0 {
		return true
	}
	for _, n := range s.Nodes {
		if n.Neuron == byte(network.HiddenNeuron) && n.Act != byte(neatmath.SigmoidSteepenedActivation) {
			return true
		}
	}
	return false
}

// an activation function the application registered itself (public API): a registered type like the built-in ones
const c15CustomActivation = neatmath.NodeActivationType(40)

var c15RegisterOnce sync.Once

// ... and two more which the application registers while it is running, after genomes have been written and read already:
// another scalar function (at the start of the second case of the process) and a module function (before the first modular
// genome of the process is written)
const c15LateActivation = neatmath.NodeActivationType(42)
const c15LateModuleActivation = neatmath.NodeActivationType(43)

var c15LateRegistered, c15LateModuleRegistered bool
var c15CasesRun int

func runC15(c *Ctx, idx int) {
	c15RegisterOnce.Do(func() {
		neatmath.NodeActivators.Register(c15CustomActivation, func(x float64, _ []float64) float64 { return x / (1 + x*x) }, "Custom40Activation")
	})
	if c15CasesRun++; c15CasesRun == 2 || c.Replay && !c15LateRegistered {
		neatmath.NodeActivators.Register(c15LateActivation, func(x float64, _ []float64) float64 { return x / (2 + math.Abs(x)) }, "Custom42Activation")
		c15LateRegistered = true
	}
	if c15LateRegistered {
		c.Count("cases.after_a_scalar_activation_was_registered_at_run_time", 1)
	}
	r := c.G
	pool := genomePool(r)
	per := 12
	if c.Tier == "thorough" {
		per = 40
	}
	// genomes: plain, YAML, organism
	var fuzzed []*genetics.Genome
	var snaps []*SnapGenome
	for i := 0; i < per && !c.Violated(); i++ {
		g, s := fuzzGenome(r, pool[r.Intn(len(pool))], i+1)
		fuzzed = append(fuzzed, g)
		snaps = append(snaps, s)
		if hasExtreme(s) {
			c.Count("weights.extreme", 1)
		}
		if !c15Genome(c, g, s, genetics.PlainGenomeEncoding, "plain") || !c15Genome(c, g, s, genetics.YAMLGenomeEncoding, "yaml") {
			return
		}
		if !c15Organism(c, r, g, s) {
			return
		}
		if nontrivialArtefact(s) {
			c.Distinct(s.fingerprint())
		}
	}
	if c.Violated() {
		return
	}
	c.Count("genomes.nodes_numbered_from_zero", c15ZeroBased)
	c15ZeroBased = 0
	if !c15OrganismBatch(c, r, fuzzed, snaps) {
		return
	}
	// modular genome in YAML
	mg, err := loadShippedGenome(modularGenomeFile)
	if err != nil {
		panic("harness: " + err.Error())
	}
	ms := snapGenome(mg)
	modularVariants(r, ms)
	if !c15LateModuleRegistered {
		neatmath.NodeActivators.RegisterModule(c15LateModuleActivation, func(xs []float64, _ []float64) []float64 {
			sum := 0.0
			for _, x := range xs {
				sum += x
			}
			return []float64{sum / float64(len(xs))}
		}, "Custom43ModuleActivation")
		c15LateModuleRegistered = true
	}
	for i := range ms.Modules {
		ms.Modules[i].En = r.Intn(3) != 0
		ms.Modules[i].Mut = fbits(fuzzFloat(r))
		ms.Modules[i].Act = byte(pick(r, neatmath.MultiplyModuleActivation, neatmath.MaxModuleActivation, neatmath.MinModuleActivation, c15LateModuleActivation))
		if ms.Modules[i].Act == byte(c15LateModuleActivation) {
			c.Count("modules.with_an_activation_registered_at_run_time", 1)
		}
		if r.Intn(2) == 0 {
			ms.Modules[i].TraitId = 1 + r.Intn(len(ms.Traits))
		}
	}
	for i := range ms.Genes {
		ms.Genes[i].W = fbits(fuzzFloat(r))
		ms.Genes[i].En = r.Intn(4) != 0
	}
	ms.Id = 77
	if r.Intn(3) == 0 && len(ms.Nodes) > 3 {
		// the node list in an order of its own, as the crossovers leave it when a module brings nodes along (they are appended) or
		// as a hand-written file lists it
		i, j := r.Intn(len(ms.Nodes)), r.Intn(len(ms.Nodes))
		nd := ms.Nodes[i]
		rest := append(append([]SnapNode{}, ms.Nodes[:i]...), ms.Nodes[i+1:]...)
		if j > len(rest) {
			j = len(rest)
		}
		ms.Nodes = append(append(append([]SnapNode{}, rest[:j]...), nd), rest[j:]...)
		c.Count("modules.genome_with_node_list_in_an_order_of_its_own", 1)
	}
	if !c15Genome(c, buildFromSnap(ms), ms, genetics.YAMLGenomeEncoding, "yaml_modular") {
		return
	}
	c.Distinct(ms.fingerprint())
	// also the shipped (ill-numbered but round-trippable) YAML start genome
	if yg, err := loadShippedGenome("xorstartgenes.yml"); err == nil {
		if !c15Genome(c, yg, snapGenome(yg), genetics.YAMLGenomeEncoding, "yaml") {
			return
		}
	}
	if !c15Population(c, r, fuzzed, snaps) || !c15Solver(c, r) || !c15Experiment(c, r, pool) {
		return
	}
	if idx%8 == 0 && !c15LargeGenome(c, r) {
		return
	}
	if idx%64 == 5 && !c15DenseGenome(c, r) {
		return
	}
}

func c15Genome(c *Ctx, g *genetics.Genome, s *SnapGenome, enc genetics.GenomeEncoding, name string) bool {
	c.Eval(1)
	c.Count("roundtrip."+name, 1)
	var buf bytes.Buffer
	detail := func() map[string]interface{} {
		return map[string]interface{}{"encoding": name, "genome": s, "text": truncate(buf.String(), 6000)}
	}
	wr, err := genetics.NewGenomeWriter(&buf, enc)
	if err == nil {
		err = wr.WriteGenome(g)
	}
	if err != nil {
		c.Violate("write-error/"+name, detail(), "writing a well-formed genome failed: %v", err)
		return false
	}
	rd, err := genetics.NewGenomeReader(bytes.NewReader(buf.Bytes()), enc)
	var back *genetics.Genome
	if err == nil {
		back, err = rd.Read()
	}
	if err != nil {
		c.Violate("read-error/"+name, detail(), "reading back the written genome failed: %v", err)
		return false
	}
	sb := snapGenome(back)
	if d := diffGenomes(s, sb); d != "" {
		dd := detail()
		dd["read_back"] = sb
		c.Violate("genome-differs/"+name, dd, "genome read back from the %s encoding differs: %s", name, d)
		return false
	}
	if sb.Id != s.Id {
		c.Violate("genome-id/"+name, detail(), "genome id %d read back as %d", s.Id, sb.Id)
		return false
	}
	if d := diffGenomes(s, snapGenome(g)); d != "" {
		c.Violate("source-modified/"+name, detail(), "writing modified the genome: %s", d)
		return false
	}
	if c.WantSample() && name == "plain" && len(s.Genes) > 2 {
		c.Sample(map[string]interface{}{"encoding": name, "text_head": truncate(buf.String(), 700)})
	}
	return true
}

func truncate(s string, n int) string {
	if len(s) <= n {
		return s
	}
	return s[:n] + "..."
}

func c15Organism(c *Ctx, r *rand.Rand, g *genetics.Genome, s *SnapGenome) bool {
	fit := math.Abs(fuzzFloat(r))
	gen := r.Intn(1000)
	org, _ := genetics.NewOrganism(fit, g, gen)
	detail := func() map[string]interface{} {
		return map[string]interface{}{"genome": s, "fitness": fmt.Sprint(fit), "generation": gen}
	}
	check := func(name string, back *genetics.Organism) bool {
		if back.Genotype == nil {
			c.Violate("organism-differs/"+name, detail(), "organism restored without genome")
			return false
		}
		if d := diffGenomes(s, snapGenome(back.Genotype)); d != "" {
			c.Violate("organism-differs/"+name, detail(), "organism's genome restored from its %s form differs: %s", name, d)
			return false
		}
		if fbits(back.Fitness) != fbits(fit) || back.Generation != gen || back.Genotype.Id != g.Id {
			c.Violate("organism-differs/"+name, detail(), "organism restored with fitness %v generation %d genome id %d, expected %v %d %d", back.Fitness, back.Generation, back.Genotype.Id, fit, gen, g.Id)
			return false
		}
		return true
	}
	c.Eval(2)
	c.Count("roundtrip.organism_binary", 1)
	data, err := org.MarshalBinary()
	if err != nil {
		c.Violate("organism-error", detail(), "MarshalBinary failed: %v", err)
		return false
	}
	back := &genetics.Organism{}
	if err = back.UnmarshalBinary(data); err != nil {
		c.Violate("organism-error", detail(), "UnmarshalBinary failed: %v", err)
		return false
	}
	if !check("binary", back) {
		return false
	}
	// through gob, the path of the parallel executor
	c.Count("roundtrip.organism_gob", 1)
	var buf bytes.Buffer
	enc := gob.NewEncoder(&buf)
	if err = enc.Encode(org); err != nil {
		c.Violate("organism-error", detail(), "gob encoding failed: %v", err)
		return false
	}
	back2 := genetics.Organism{}
	if err = gob.NewDecoder(&buf).Decode(&back2); err != nil {
		c.Violate("organism-error", detail(), "gob decoding failed: %v", err)
		return false
	}
	return check("gob", &back2)
}

// c15OrganismBatch marshals all organisms first and restores them afterwards (as a caller collecting the binary forms of a
// whole species does): every binary form must still restore its own organism when others were produced after it
func c15OrganismBatch(c *Ctx, r *rand.Rand, genomes []*genetics.Genome, snaps []*SnapGenome) bool {
	type item struct {
		data []byte
		copy []byte
		fit  float64
		gen  int
	}
	items := make([]item, len(genomes))
	for i, g := range genomes {
		items[i].fit, items[i].gen = math.Abs(fuzzFloat(r)), r.Intn(1000)
		org, _ := genetics.NewOrganism(items[i].fit, g, items[i].gen)
		data, err := org.MarshalBinary()
		if err != nil {
			c.Violate("organism-error", map[string]interface{}{"genome": snaps[i]}, "MarshalBinary failed: %v", err)
			return false
		}
		items[i].data = data
		items[i].copy = append([]byte{}, data...)
	}
	c.Eval(len(items))
	c.Count("roundtrip.organism_binary_batched", len(items))
	for i, it := range items {
		detail := map[string]interface{}{"genome": snaps[i], "fitness": fmt.Sprint(it.fit), "generation": it.gen, "position_in_batch": i, "batch": len(items)}
		if !bytes.Equal(it.data, it.copy) {
			c.Violate("organism-differs/binary-batch", detail, "the binary form of organism #%d changed while %d further organisms were marshalled", i, len(items)-1-i)
			return false
		}
		back := &genetics.Organism{}
		if err := back.UnmarshalBinary(it.data); err != nil {
			c.Violate("organism-error", detail, "UnmarshalBinary of organism #%d of a batch failed: %v", i, err)
			return false
		}
		if back.Genotype == nil || diffGenomes(snaps[i], snapGenome(back.Genotype)) != "" || fbits(back.Fitness) != fbits(it.fit) || back.Generation != it.gen {
			c.Violate("organism-differs/binary-batch", detail, "organism #%d of a batch marshalled before it was restored does not restore itself", i)
			return false
		}
	}
	return true
}

// c15LargeGenome round trips a long-evolved genome: more than 500 nodes (a chain of node splits), runs of neighbouring
// disabled genes as add-node leaves them, through the plain encoding and a written population
func c15LargeGenome(c *Ctx, r *rand.Rand) bool {
	s := largeGenomeSnap(r)
	g := buildFromSnap(s)
	if kind, msg := wf(g, nil, true); kind != "" {
		panic("harness: the large genome is not well-formed: " + msg)
	}
	c.Count("roundtrip.large_genome", 1)
	if !c15Genome(c, g, s, genetics.PlainGenomeEncoding, "plain") {
		return false
	}
	o := baseOpts()
	o.PopSize = 3
	pop, err := genetics.NewPopulation(buildFromSnap(s), o)
	if err != nil {
		// the debugging verifier of the constructor is none of C15's business
		c.Count("roundtrip.large_genome_population_not_spawned", 1)
		return true
	}
	snaps := make([]*SnapGenome, len(pop.Organisms))
	for i, org := range pop.Organisms {
		snaps[i] = snapGenome(org.Genotype)
	}
	var buf bytes.Buffer
	if err = pop.Write(&buf); err != nil {
		c.Violate("population-error", nil, "Population.Write failed on a population of %d-node genomes: %v", len(s.Nodes), err)
		return false
	}
	back, err := genetics.ReadPopulation(&buf, o)
	c.Eval(1)
	if err != nil {
		c.Violate("population-error", map[string]interface{}{"nodes": len(s.Nodes), "genes": len(s.Genes)}, "ReadPopulation failed on what Population.Write wrote for genomes of %d nodes: %v", len(s.Nodes), err)
		return false
	}
	if len(back.Organisms) != len(snaps) {
		c.Violate("population-differs", nil, "population of %d large genomes read back with %d organisms", len(snaps), len(back.Organisms))
		return false
	}
	for i := range snaps {
		if d := diffGenomes(snaps[i], snapGenome(back.Organisms[i].Genotype)); d != "" {
			c.Violate("population-differs", nil, "large genome #%d of the population read back differs: %s", i, d)
			return false
		}
	}
	return true
}

func c15Population(c *Ctx, r *rand.Rand, genomes []*genetics.Genome, snaps []*SnapGenome) bool {
	// a population written genome by genome restores the same genomes. Organisms of one population share trait count.
	n := 3 + r.Intn(58)
	if n > len(genomes) {
		n = len(genomes)
	}
	o := genOpts(r)
	o.PopSize = n
	o.CompatThreshold = pick(r, 0.5, 3.0, 1e6)
	// a real population object: spawn and then replace the genomes by the fuzzed ones
	pop, err := genetics.NewPopulation(genomes[0], o)
	if err != nil {
		panic("harness: " + err.Error())
	}
	for i := 0; i < n; i++ {
		pop.Organisms[i].Genotype = genomes[i]
	}
	if r.Intn(4) == 0 {
		// a population put together from several sources (the best of several runs, species that number their offspring
		// independently): genome ids repeat; every organism is written and comes back all the same
		m := pick(r, 1, 2, 5)
		for i := 0; i < n; i++ {
			oldG, oldS, g, sn := genomes[i].Id, snaps[i].Id, genomes[i], snaps[i]
			defer func() { g.Id, sn.Id = oldG, oldS }()
			g.Id, sn.Id = oldG%m, oldG%m
		}
		c.Count("roundtrip.population_with_repeated_genome_ids", 1)
	}
	c.Eval(1)
	c.Count("roundtrip.population", 1)
	var buf bytes.Buffer
	if err = pop.Write(&buf); err != nil {
		c.Violate("population-error", nil, "Population.Write failed: %v", err)
		return false
	}
	text := buf.String()
	back, err := genetics.ReadPopulation(&buf, o)
	detail := func() map[string]interface{} {
		return map[string]interface{}{"genomes": n, "text_head": truncate(text, 3000)}
	}
	if err != nil {
		c.Violate("population-error", detail(), "ReadPopulation failed: %v", err)
		return false
	}
	if len(back.Organisms) != n {
		c.Violate("population-differs", detail(), "population of %d genomes read back with %d organisms", n, len(back.Organisms))
		return false
	}
	for i := 0; i < n; i++ {
		sb := snapGenome(back.Organisms[i].Genotype)
		if d := diffGenomes(snaps[i], sb); d != "" {
			dd := detail()
			dd["genome"] = snaps[i]
			dd["read_back"] = sb
			c.Violate("population-differs", dd, "genome #%d of the population read back differs: %s", i, d)
			return false
		}
		if sb.Id != snaps[i].Id {
			c.Violate("population-differs", detail(), "genome #%d has id %d after reading, %d before", i, sb.Id, snaps[i].Id)
			return false
		}
	}
	// every organism is in exactly one species
	cnt := 0
	for _, sp := range back.Species {
		cnt += len(sp.Organisms)
	}
	if cnt != n {
		c.Violate("population-differs", detail(), "species of the population read back list %d organisms of %d", cnt, n)
		return false
	}
	// the other writer: species by species (what the examples store after a run), with a winner among the organisms now and then
	byId := map[int]*SnapGenome{}
	for i := 0; i < n; i++ {
		byId[snaps[i].Id] = snaps[i]
	}
	if len(byId) == n {
		winner := r.Intn(2) == 0
		if winner {
			pop.Organisms[r.Intn(n)].IsWinner = true
			c.Count("roundtrip.population_by_species_with_winner", 1)
		}
		var buf2 bytes.Buffer
		if err = pop.WriteBySpecies(&buf2); err != nil {
			c.Violate("population-error", nil, "Population.WriteBySpecies failed: %v", err)
			return false
		}
		text2 := buf2.String()
		var back2 *genetics.Population
		func() {
			defer func() {
				if p := recover(); p != nil {
					err = fmt.Errorf("panic: %v", p)
				}
			}()
			back2, err = genetics.ReadPopulation(&buf2, o)
		}()
		c.Eval(1)
		c.Count("roundtrip.population_by_species", 1)
		d2 := func() map[string]interface{} {
			return map[string]interface{}{"genomes": n, "winner_marked": winner, "text_head": truncate(text2, 3000)}
		}
		if err != nil {
			c.Violate("population-error", d2(), "ReadPopulation failed on what Population.WriteBySpecies wrote: %v", err)
			return false
		}
		if len(back2.Organisms) != n {
			c.Violate("population-differs", d2(), "population of %d genomes written species by species read back with %d organisms", n, len(back2.Organisms))
			return false
		}
		for _, org := range back2.Organisms {
			sb := snapGenome(org.Genotype)
			want, ok := byId[sb.Id]
			if !ok {
				c.Violate("population-differs", d2(), "the population written species by species reads back a genome with id %d, which was not written", sb.Id)
				return false
			}
			if d := diffGenomes(want, sb); d != "" {
				dd := d2()
				dd["genome"], dd["read_back"] = want, sb
				c.Violate("population-differs", dd, "genome %d of the population written species by species reads back differently: %s", sb.Id, d)
				return false
			}
		}
	}
	return true
}

func c15Solver(c *Ctx, r *rand.Rand) bool {
	for k := 0; k < 6; k++ {
		var net *network.Network
		var desc map[string]interface{}
		nIn := 0
		modular := k == 0
		if modular {
			mg, err := loadShippedGenome(modularGenomeFile)
			if err != nil {
				panic("harness: " + err.Error())
			}
			ms := snapGenome(mg)
			for i := range ms.Genes {
				ms.Genes[i].W = fbits(r.NormFloat64())
			}
			for i := range ms.Modules {
				ms.Modules[i].Act = byte(pick(r, neatmath.MultiplyModuleActivation, neatmath.MaxModuleActivation, neatmath.MinModuleActivation))
			}
			net, err = buildFromSnap(ms).Genesis(3)
			if err != nil {
				panic("harness: " + err.Error())
			}
			nIn = 4
			desc = map[string]interface{}{"genome": modularGenomeFile}
		} else {
			o := netGenOpts{maxIn: 4, maxBias: 2, maxHid: 8, maxOut: 3, edgeProb: 0.3, weightScale: pick(r, 0.1, 1.0, 3.0), acts: scalarActivations, reachable: true}
			if k >= 4 {
				o.backEdges = 2
				o.minHid = 1
			}
			s := genNet(r, o)
			for i := range s.Edges {
				if r.Intn(6) == 0 {
					s.Edges[i].W = fuzzFloat(r)
				}
			}
			net = s.build()
			net.Name = pick(r, "", "net", "a b")
			nIn = s.NIn
			desc = s.full()
		}
		solver, err := net.FastNetworkSolver()
		if err != nil {
			panic("harness: " + err.Error())
		}
		fs := solver.(*network.FastModularNetworkSolver)
		c.Eval(1)
		c.Count("roundtrip.solver_model", 1)
		if modular {
			c.Count("roundtrip.solver_model_modular", 1)
		}
		var buf bytes.Buffer
		if err = fs.WriteModel(&buf); err != nil {
			c.Violate("model-error", map[string]interface{}{"network": desc}, "WriteModel failed: %v", err)
			return false
		}
		text := buf.String()
		back, err := network.ReadFMNSModel(&buf)
		detail := func() map[string]interface{} {
			return map[string]interface{}{"network": desc, "model": truncate(text, 4000)}
		}
		if err != nil {
			c.Violate("model-error", detail(), "ReadFMNSModel failed: %v", err)
			return false
		}
		if back.NodeCount() != fs.NodeCount() || back.LinkCount() != fs.LinkCount() || back.Id != fs.Id || back.Name != fs.Name {
			c.Violate("model-differs", detail(), "restored solver has %d nodes %d links id %d name %q, the original %d %d %d %q",
				back.NodeCount(), back.LinkCount(), back.Id, back.Name, fs.NodeCount(), fs.LinkCount(), fs.Id, fs.Name)
			return false
		}
		for q := 0; q < 5; q++ {
			in := randInputs(r, nIn, 1.5)
			for _, mode := range []string{"forward", "recursive"} {
				run := func(s *network.FastModularNetworkSolver) ([]float64, string) {
					_, _ = s.Flush()
					if err := s.LoadSensors(in); err != nil {
						return nil, err.Error()
					}
					var err error
					if mode == "forward" {
						_, err = s.ForwardSteps(3)
					} else {
						_, err = s.RecursiveSteps()
					}
					return s.ReadOutputs(), errStr(err)
				}
				o1, e1 := run(fs)
				o2, e2 := run(back)
				if e1 != e2 || !vecBitsEqual(o1, o2) {
					d := detail()
					d["inputs"] = in
					c.Violate("model-differs", d, "restored solver computes %v (%s) under %s activation, the original %v (%s)", o2, e2, mode, o1, e1)
					return false
				}
			}
		}
	}
	return true
}

func c15Experiment(c *Ctx, r *rand.Rand, pool []*genetics.Genome) bool {
	// champions with fuzzed parameters
	var champs []*genetics.Genome
	for i := 0; i < 8; i++ {
		g, _ := fuzzGenome(r, pool[r.Intn(len(pool))], i+1)
		champs = append(champs, g)
	}
	for k := 0; k < 4; k++ {
		se := genSynthExperiment(r, champs)
		c.Eval(1)
		c.Count("roundtrip.experiment", 1)
		var buf bytes.Buffer
		if err := se.exp.Write(&buf); err != nil {
			c.Violate("experiment-error", map[string]interface{}{"experiment": se.brief()}, "Experiment.Write failed: %v", err)
			return false
		}
		var back experiment.Experiment
		if r.Intn(2) == 0 {
			// the receiver was in use before: it holds as many trials as are about to be read, with generations of their own and
			// every cached aggregate computed
			for ti := range se.exp.Trials {
				old := experiment.Trial{Id: 100 + ti, Duration: 12345, Generations: experiment.Generations{{Id: 0, TrialId: 100 + ti},
					{Id: 1, TrialId: 100 + ti, Solved: true, WinnerNodes: 3, WinnerGenes: 4, WinnerEvals: 5, Diversity: 6}}}
				back.Trials = append(back.Trials, old)
			}
			for ti := range back.Trials {
				_, _, _, _ = back.Trials[ti].WinnerStatistics()
			}
			back.Id, back.Name = 999, "in use"
			c.Count("roundtrip.experiment_into_used_value", 1)
		}
		if err := back.Read(&buf); err != nil {
			c.Violate("experiment-error", map[string]interface{}{"experiment": se.brief()}, "Experiment.Read failed: %v", err)
			return false
		}
		detail := map[string]interface{}{"experiment": se.brief()}
		if back.Id != se.exp.Id || back.Name != se.exp.Name || len(back.Trials) != len(se.exp.Trials) {
			c.Violate("experiment-differs", detail, "experiment (id %d, name %q, %d trials) read back as (id %d, name %q, %d trials)", se.exp.Id, se.exp.Name, len(se.exp.Trials), back.Id, back.Name, len(back.Trials))
			return false
		}
		for ti := range se.exp.Trials {
			a, b := se.exp.Trials[ti], back.Trials[ti]
			if a.Id != b.Id || len(a.Generations) != len(b.Generations) {
				c.Violate("experiment-differs", detail, "trial %d read back with id %d and %d generations (was %d, %d)", ti, b.Id, len(b.Generations), a.Id, len(a.Generations))
				return false
			}
			for gi := range a.Generations {
				x, y := a.Generations[gi], b.Generations[gi]
				if x.Id != y.Id || x.TrialId != y.TrialId || x.Solved != y.Solved || x.Diversity != y.Diversity || x.WinnerEvals != y.WinnerEvals ||
					x.WinnerNodes != y.WinnerNodes || x.WinnerGenes != y.WinnerGenes || x.Duration != y.Duration || !x.Executed.Equal(y.Executed) ||
					!vecBitsEqual(x.Fitness, y.Fitness) || !vecBitsEqual(x.Age, y.Age) || !vecBitsEqual(x.Complexity, y.Complexity) {
					c.Violate("experiment-differs", detail, "generation %d of trial %d differs after the round trip", gi, ti)
					return false
				}
				if y.Champion == nil || y.Champion.Genotype == nil {
					c.Violate("experiment-differs", detail, "generation %d of trial %d lost its champion", gi, ti)
					return false
				}
				if fbits(x.Champion.Fitness) != fbits(y.Champion.Fitness) || x.Champion.IsWinner != y.Champion.IsWinner || x.Champion.Generation != y.Champion.Generation ||
					fbits(x.Champion.Error) != fbits(y.Champion.Error) {
					c.Violate("experiment-differs", detail, "champion of generation %d of trial %d differs (fitness %v / %v)", gi, ti, x.Champion.Fitness, y.Champion.Fitness)
					return false
				}
				if d := diffGenomes(se.trials[ti][gi].champion, snapGenome(y.Champion.Genotype)); d != "" {
					c.Violate("experiment-differs", detail, "champion genome of generation %d of trial %d differs: %s", gi, ti, d)
					return false
				}
			}
		}
		// the derived statistics of the restored experiment
		if kind, msg := checkAggregates(c, se, &back, false); kind != "" {
			c.Violate("experiment-stats/"+kind, detail, "statistics of the restored experiment: %s", msg)
			return false
		}
	}
	return true
}

// largeGenomeSnap describes a long-evolved genome: more than 500 nodes (a chain of node splits), runs of neighbouring
// disabled genes as add-node leaves them
func largeGenomeSnap(r *rand.Rand) *SnapGenome {
	s := &SnapGenome{Id: 1}
	s.Traits = []SnapTrait{{Id: 1, Params: make([]uint64, 8)}}
	nHidden := 500 + r.Intn(40)
	s.Nodes = append(s.Nodes, SnapNode{Id: 1, Neuron: byte(network.InputNeuron), Act: byte(neatmath.NullActivation), TraitId: 1},
		SnapNode{Id: 2, Neuron: byte(network.BiasNeuron), Act: byte(neatmath.NullActivation), TraitId: 1},
		SnapNode{Id: 3, Neuron: byte(network.OutputNeuron), Act: byte(neatmath.SigmoidSteepenedActivation), TraitId: 1})
	innov := int64(0)
	gene := func(in, out int, en bool) {
		innov++
		w := fbits(r.NormFloat64())
		s.Genes = append(s.Genes, SnapGene{In: in, Out: out, Innov: innov, W: w, Mut: w, En: en, TraitId: 1})
	}
	gene(2, 3, true)
	prev := 1
	for i := 0; i < nHidden; i++ {
		id := 4 + i
		s.Nodes = append(s.Nodes, SnapNode{Id: id, Neuron: byte(network.HiddenNeuron), Act: byte(neatmath.SigmoidSteepenedActivation), TraitId: 1})
		// the split link prev -> 3 stays behind disabled, like after an add-node mutation; now and then two in a row
		gene(prev, 3, false)
		if r.Intn(4) == 0 {
			gene(2, id, false)
		}
		gene(prev, id, true)
		prev = id
	}
	gene(prev, 3, true)
	return s
}

// c15DenseGenome round trips a genome whose written form is a few megabytes long: 150-180 nodes with (nearly) every ordered
// pair of them joined, plain encoding and the binary form of an organism
func c15DenseGenome(c *Ctx, r *rand.Rand) bool {
	n := 150 + r.Intn(30)
	s := &SnapGenome{Id: 9}
	for t := 1; t <= 2; t++ {
		tr := SnapTrait{Id: t, Params: make([]uint64, 8)}
		for j := range tr.Params {
			tr.Params[j] = fbits(r.Float64())
		}
		s.Traits = append(s.Traits, tr)
	}
	for id := 1; id <= n; id++ {
		nd := SnapNode{Id: id, Neuron: byte(network.HiddenNeuron), Act: byte(neatmath.SigmoidSteepenedActivation), TraitId: 1 + r.Intn(2)}
		switch {
		case id <= 3:
			nd.Neuron, nd.Act = byte(network.InputNeuron), byte(neatmath.NullActivation)
		case id == 4:
			nd.Neuron, nd.Act = byte(network.BiasNeuron), byte(neatmath.NullActivation)
		case id <= 6:
			nd.Neuron = byte(network.OutputNeuron)
		}
		s.Nodes = append(s.Nodes, nd)
	}
	innov := int64(0)
	for u := 1; u <= n; u++ {
		for v := 5; v <= n; v++ {
			if r.Intn(50) == 0 {
				continue
			}
			innov++
			w := fuzzFloat(r)
			s.Genes = append(s.Genes, SnapGene{In: u, Out: v, Innov: innov, W: fbits(w), Mut: fbits(w), En: r.Intn(5) != 0, Rec: v <= u, TraitId: r.Intn(3)})
		}
	}
	g := buildFromSnap(s)
	c.Count("roundtrip.genome_of_megabytes", 1)
	c.Count("roundtrip.genome_of_megabytes.genes", len(s.Genes))
	brief := &SnapGenome{Id: s.Id, Traits: s.Traits, Nodes: s.Nodes[:8], Genes: s.Genes[:8]}
	var buf bytes.Buffer
	if err := g.Write(&buf); err != nil {
		c.Violate("write-error/plain", map[string]interface{}{"genome_head": brief, "nodes": n, "genes": len(s.Genes)}, "writing a genome of %d nodes and %d genes failed: %v", n, len(s.Genes), err)
		return false
	}
	size := buf.Len()
	back, err := genetics.ReadGenome(&buf, s.Id)
	c.Eval(1)
	detail := map[string]interface{}{"genome_head": brief, "nodes": n, "genes": len(s.Genes), "bytes_written": size, "key": "dense-genome"}
	if err != nil {
		c.Violate("read-error/plain", detail, "reading back the written genome (%d nodes, %d genes, %d bytes) failed: %v", n, len(s.Genes), size, err)
		return false
	}
	if d := diffGenomes(s, snapGenome(back)); d != "" {
		c.Violate("genome-differs/plain", detail, "genome of %d nodes and %d genes (%d bytes written) read back differs: %s", n, len(s.Genes), size, d)
		return false
	}
	org, _ := genetics.NewOrganism(1.5, g, 3)
	data, err := org.MarshalBinary()
	if err != nil {
		c.Violate("organism-error", detail, "MarshalBinary failed on an organism whose genome has %d genes: %v", len(s.Genes), err)
		return false
	}
	restored := &genetics.Organism{}
	if err = restored.UnmarshalBinary(data); err != nil || restored.Genotype == nil {
		c.Violate("organism-error", detail, "UnmarshalBinary failed on the %d bytes MarshalBinary wrote for an organism whose genome has %d genes: %v", len(data), len(s.Genes), err)
		return false
	}
	if d := diffGenomes(s, snapGenome(restored.Genotype)); d != "" {
		c.Violate("organism-differs/binary", detail, "organism's genome (%d genes) restored from its binary form differs: %s", len(s.Genes), d)
		return false
	}
	return true
}
