package main

import (
	"bytes"
	"context"
	"fmt"
	"math"
	"math/rand"
	"regexp"
	"strconv"
	"strings"
	"sync/atomic"

	"github.com/yaricom/goNEAT/v4/neat"
	"github.com/yaricom/goNEAT/v4/neat/genetics"
)

// The epoch driver: builds a population by one of the public constructors, assigns fitness, calls the real epoch
// executor and feeds pre/post states to the subscribed monitor.

const (
	ctorSpawn = iota
	ctorRandom
	ctorRead
)

const (
	fitZero = iota
	fitConstant
	fitUniform
	fitLogNormal
	fitDominant
	fitStagnating
	fitDistinct
	fitHuge
	fitShapes
	// fitTiny is used by C09 / C10 only: positive values around the bottom of the float64 range (subnormal shared fitness)
	fitTiny = 100
	// fitZeroSpecies (C09 / C10): every organism of every third species has fitness zero, the others uniform values
	fitZeroSpecies = 101
	// fitOldGuard (C10): the organisms of old species hold the highest, never improving fitness (those species stagnate and
	// are "dying" while they still rank first), the younger species score lower but improve with every generation
	fitOldGuard = 102
	// fitFewRisers (C10): every fourth species (by id) scores low but improves with every generation, all the others hold the
	// same high, constant score: the leaders are "dying" while they rank first and only a few species qualify for stolen babies
	fitFewRisers = 103
)

var fitNames = []string{"all-zero", "constant", "uniform", "log-normal", "one-dominant", "stagnating", "distinct-positive", "huge (sum overflows)"}
var ctorNames = []string{"NewPopulation", "NewPopulationRandom", "ReadPopulation"}

type EvoScenario struct {
	Opts     *neat.Options
	Ctor     int
	Start    *genetics.Genome
	StartSrc string
	Parallel bool
	Epochs   int
	Fitness  int
	// NewPopulationRandom parameters
	RandIn, RandOut, RandHidden int
	RandRecur                   bool
	RandLinkProb                float64
	// RestoreAt > 0: before the epoch with this index the population is written with Population.Write and replaced by the
	// one ReadPopulation restores from that text (evolve -> store -> restore -> evolve on)
	RestoreAt int
	restoring bool
	// coarseFitness (C17): the deterministic fitness function takes five values only
	coarseFitness bool
	// signedFitness (C17): the deterministic fitness function is negative for most organisms (an error measure with the sign
	// turned, as in "0.1 - |error|")
	signedFitness bool
	// RepeatIds > 0 (constructor ReadPopulation): the genome ids in the file are taken modulo this number, as in a seed file
	// put together from the stores of several runs
	RepeatIds int
	// BySpeciesFactor > 0 (constructor ReadPopulation): the file is the dump by species (WriteBySpecies, the format the examples
	// store) of a population that was spawned and speciated under a threshold this many times the one it is read under
	BySpeciesFactor float64
	// IsolatedNeuron (constructor ReadPopulation): every genome in the file lists one more hidden neuron, which no gene refers
	// to (a hand-edited file; NewPopulationRandom builds such genomes too)
	IsolatedNeuron bool
	// AbortAt > 0: the turnover of that generation is first attempted under a context that is cancelled while the species
	// reproduce (the attempt fails, its offspring are dropped), and then made again; a retry that fails ends the scenario quietly
	// (what an aborted turnover leaves behind is no population any property speaks about - unless everything survives)
	AbortAt int
	// executor is the executor object of the run (created by runScenario unless the caller hands one over)
	executor genetics.PopulationEpochExecutor
	// hugePopulation (C17): thousands of organisms
	hugePopulation bool
	// manySpeciesTies (C17): large genomes, many species, purely structural distances
	manySpeciesTies bool
	modular        bool // a modular start genome with crossovers (C17 only)
	// activatorsFromFile: the list of activation functions was read from an options text by the library's reader (C17 only)
	activatorsFromFile bool
	// switchThreshold: the copy of the options that takes over at SwitchOptsAt has another compatibility threshold as well (C08)
	switchThreshold bool
	// ownContext: the executor is handed the context the options object gives out itself (Options.NeatContext)
	ownContext bool
	// genesShuffled: the start genome lists its connection genes out of innovation order (C17 only)
	genesShuffled bool
	// SwitchOptsAt > 0: from the epoch with this index on the executor (the same object) is handed a context that carries
	// another Options object: a by-value copy with the survival threshold, age significance, drop-off age and stolen babies changed
	SwitchOptsAt int
	// CancelAtEnd: after the last epoch one more turnover is started and cancelled while the species reproduce (C16)
	CancelAtEnd bool
}

func fitName(shape int) string {
	if shape == fitTiny {
		return "tiny (subnormal shares)"
	}
	if shape == fitZeroSpecies {
		return "whole species at zero"
	}
	if shape == fitOldGuard {
		return "old species lead but stagnate, young ones improve"
	}
	if shape == fitFewRisers {
		return "most species lead and stagnate, every fourth improves"
	}
	return fitNames[shape]
}

func (sc *EvoScenario) brief() map[string]interface{} {
	m := map[string]interface{}{"ctor": ctorNames[sc.Ctor], "start": sc.StartSrc, "parallel": sc.Parallel, "epochs": sc.Epochs,
		"fitness": fitName(sc.Fitness), "opts": optsBrief(sc.Opts)}
	if sc.SwitchOptsAt > 0 {
		m["options_object_switched_at"] = sc.SwitchOptsAt
	}
	if sc.RestoreAt > 0 {
		m["restore_at"] = sc.RestoreAt
	}
	if sc.RepeatIds > 0 {
		m["genome_ids_in_the_file_taken_modulo"] = sc.RepeatIds
	}
	if sc.IsolatedNeuron {
		m["every_genome_in_the_file_lists_a_hidden_neuron_no_gene_refers_to"] = true
	}
	if sc.BySpeciesFactor > 0 {
		m["read_from_a_dump_by_species_made_under_threshold_times"] = sc.BySpeciesFactor
	}
	if sc.AbortAt > 0 {
		m["turnover_aborted_and_made_again_at"] = sc.AbortAt
	}
	if sc.Ctor == ctorRandom {
		m["random"] = fmt.Sprintf("in=%d out=%d hidden<%d recur=%v p=%.2f", sc.RandIn, sc.RandOut, sc.RandHidden, sc.RandRecur, sc.RandLinkProb)
	}
	return m
}

type EvoMonitor interface {
	// Constructed is invoked when population was built (before any epoch)
	Constructed(c *Ctx, sc *EvoScenario, pop *genetics.Population)
	// BeforeEpoch is invoked after fitness was assigned and before epoch turnover
	BeforeEpoch(c *Ctx, sc *EvoScenario, gen int, pop *genetics.Population)
	// AfterEpoch is invoked with the result of the turnover; returns false to stop the scenario
	AfterEpoch(c *Ctx, sc *EvoScenario, gen int, pop *genetics.Population, err error) bool
}

// genScenario draws scenario; the tweak callback lets the property bias it
func genScenario(r *rand.Rand, allowParallel bool) *EvoScenario {
	sc := &EvoScenario{Opts: genOpts(r)}
	switch x := r.Intn(10); {
	case x < 6:
		sc.Ctor = ctorSpawn
	case x < 8:
		sc.Ctor = ctorRandom
	default:
		sc.Ctor = ctorRead
	}
	if sc.Ctor == ctorRead && r.Intn(2) == 0 {
		sc.RepeatIds = pick(r, 1, 2, 5)
	}
	if sc.Ctor == ctorRead && r.Intn(3) == 0 {
		sc.BySpeciesFactor = pick(r, 0.2, 0.5, 1.0, 3.0, 10.0)
	}
	sc.Start, sc.StartSrc = startGenome(r, sc.Opts)
	sc.RandIn, sc.RandOut, sc.RandHidden = 2+r.Intn(3), 1+r.Intn(2), 1+r.Intn(5)
	sc.RandRecur = r.Intn(2) == 0
	sc.RandLinkProb = pick(r, 0.3, 0.5, 0.8, 1.0)
	sc.Parallel = allowParallel && r.Intn(3) == 0
	sc.Epochs = 25 + r.Intn(36)
	sc.Fitness = r.Intn(fitShapes)
	if r.Intn(4) == 0 {
		sc.RestoreAt = 2 + r.Intn(sc.Epochs-2)
	}
	return sc
}

var genomeIdLine = regexp.MustCompile(`(?m)^(genomestart|genomeend) \d+`)

func (sc *EvoScenario) construct() (*genetics.Population, error) {
	switch sc.Ctor {
	case ctorSpawn:
		return genetics.NewPopulation(sc.Start, sc.Opts)
	case ctorRandom:
		return genetics.NewPopulationRandom(sc.RandIn, sc.RandOut, sc.RandHidden, sc.RandRecur, sc.RandLinkProb, sc.Opts)
	default:
		// write a spawned population and read it back: the counters are initialised by the reader
		wopts := sc.Opts
		if sc.BySpeciesFactor > 0 {
			tuned := *sc.Opts
			tuned.CompatThreshold *= sc.BySpeciesFactor
			wopts = &tuned
		}
		hook := genetics.VerifHooks.Speciated
		if sc.BySpeciesFactor > 0 {
			genetics.VerifHooks.Speciated = nil // (the population that is written was speciated under options of its own; it is not the one under observation)
		}
		pop, err := genetics.NewPopulation(sc.Start, wopts)
		genetics.VerifHooks.Speciated = hook
		if err != nil {
			return nil, err
		}
		var buf bytes.Buffer
		if sc.BySpeciesFactor > 0 {
			err = pop.WriteBySpecies(&buf)
		} else {
			err = pop.Write(&buf)
		}
		if err != nil {
			return nil, err
		}
		if sc.IsolatedNeuron {
			var out []string
			last, inNodes := 0, false
			for _, line := range strings.Split(buf.String(), "\n") {
				f := strings.Fields(line)
				if len(f) > 1 && f[0] == "node" {
					last, _ = strconv.Atoi(f[1])
					inNodes = true
				} else if inNodes {
					out = append(out, fmt.Sprintf("node %d 0 0 0 TanhActivation", last+1))
					inNodes = false
				}
				out = append(out, line)
			}
			buf.Reset()
			buf.WriteString(strings.Join(out, "\n"))
		}
		if sc.RepeatIds > 0 {
			text := genomeIdLine.ReplaceAllStringFunc(buf.String(), func(m string) string {
				f := strings.Fields(m)
				id, _ := strconv.Atoi(f[1])
				return fmt.Sprintf("%s %d", f[0], id%sc.RepeatIds)
			})
			return genetics.ReadPopulation(strings.NewReader(text), sc.Opts)
		}
		return genetics.ReadPopulation(&buf, sc.Opts)
	}
}

// assignFitness sets finite non-negative fitness values of given shape (all but the huge shape bounded by 1e12)
func assignFitness(r *rand.Rand, shape, gen int, pop *genetics.Population) {
	n := len(pop.Organisms)
	dom := 0
	if n > 0 {
		dom = r.Intn(n)
	}
	for i, org := range pop.Organisms {
		switch shape {
		case fitZero:
			org.Fitness = 0
		case fitConstant:
			org.Fitness = 1.5
		case fitUniform:
			org.Fitness = r.Float64() * 10
		case fitLogNormal:
			org.Fitness = math.Min(math.Exp(r.NormFloat64()*4), 1e12)
		case fitDominant:
			org.Fitness = 0.001
			if i == dom {
				org.Fitness = 1000
			}
		case fitStagnating:
			// improves for a few epochs and stays constant afterwards to force stagnation and delta coding
			if gen < 4 {
				org.Fitness = float64(gen+1) + r.Float64()
			} else {
				org.Fitness = 1 + float64(i)*1e-5 // distinct values, constant maximum
			}
		case fitDistinct:
			org.Fitness = math.Exp(r.NormFloat64()*2) + float64(i+1)*1e-7
		case fitOldGuard:
			if org.Species != nil && org.Species.Age > 5 {
				// (declining by a hair with every generation, so that no reshuffle of the distinct values counts as an improvement)
				org.Fitness = 10 - float64(gen)*1e-4 - float64(i+1)*1e-8
			} else {
				org.Fitness = 3 + 0.05*float64(gen) + float64(i+1)*1e-7
			}
		case fitFewRisers:
			if org.Species != nil && org.Species.Id%4 == 2 {
				// the leader of a rising species improves steadily, its other members score a fraction of that: the species ranks by
				// its leader but draws its quota from the average
				org.Fitness = 3 + 0.05*float64(gen) + 0.4*float64(org.Species.Id%5) + float64(i+1)*1e-7
				if len(org.Species.Organisms) > 0 && org.Species.Organisms[0] != org {
					org.Fitness *= 0.02 + 0.3*r.Float64()
				}
			} else {
				org.Fitness = 10 - float64(gen)*1e-4 - float64(i+1)*1e-8
			}
		case fitZeroSpecies:
			org.Fitness = r.Float64() * 7
			if org.Species != nil && org.Species.Id%3 == gen%3 {
				org.Fitness = 0
			}
		case fitTiny:
			org.Fitness = (1 + r.Float64()*9) * 1e-308 * pick(r, 1.0, 0.1, 0.01)
		case fitHuge:
			// finite values whose sum over the population is not: a few outliers near the top of the float64 range, or all equal
			// to the largest finite value
			switch {
			case gen%3 == 0:
				org.Fitness = math.MaxFloat64
			case i%4 == 0:
				org.Fitness = 1.5e308 * (0.5 + r.Float64()/2)
			default:
				org.Fitness = r.Float64() * 100
			}
		}
	}
}

// runScenario drives the scenario under the monitor
// preConstructor is implemented by the monitors which observe the construction of the population itself (hooks installed
// before NewPopulation / NewPopulationRandom / ReadPopulation run)
type preConstructor interface {
	PreConstruct(c *Ctx, sc *EvoScenario)
}

func runScenario(c *Ctx, sc *EvoScenario, mon EvoMonitor) {
	defer func() { genetics.VerifHooks = genetics.VerifHookSet{} }()
	if pc, ok := mon.(preConstructor); ok {
		pc.PreConstruct(c, sc)
	}
	pop, err := sc.construct()
	if err != nil {
		// construction failure of in-domain input is a matter of C01/C02 monitors; report through AfterEpoch with gen -1
		mon.AfterEpoch(c, sc, -1, nil, err)
		return
	}
	for _, org := range pop.Organisms {
		if len(org.Genotype.Genes) == 0 {
			// outside every quantifier: start genomes have at least one connection gene
			c.Count("scenarios.skipped_gene_less_random_genome", 1)
			return
		}
	}
	mon.Constructed(c, sc, pop)
	// (a scenario copied from one that has been run takes over its executor object: executors may serve one run after another)
	if sc.executor == nil {
		if sc.Parallel {
			sc.executor = &genetics.ParallelPopulationEpochExecutor{}
		} else {
			sc.executor = &genetics.SequentialPopulationEpochExecutor{}
		}
	}
	ex := sc.executor
	ctx := neat.NewContext(context.Background(), sc.Opts)
	if sc.ownContext {
		ctx = sc.Opts.NeatContext()
	}
	for gen := 0; gen < sc.Epochs; gen++ {
		if sc.RestoreAt > 0 && gen == sc.RestoreAt {
			// store and restore: the monitors meet the restored population as a newly constructed one (their history-long
			// registries live on)
			var buf bytes.Buffer
			if err = pop.Write(&buf); err == nil {
				sc.restoring = true
				if pc, ok := mon.(preConstructor); ok {
					pc.PreConstruct(c, sc)
				}
				pop, err = genetics.ReadPopulation(&buf, sc.Opts)
			}
			if err != nil {
				mon.AfterEpoch(c, sc, -1, nil, fmt.Errorf("store / restore before epoch %d: %w", gen, err))
				return
			}
			c.Count("populations.restored_mid_run", 1)
			mon.Constructed(c, sc, pop)
		}
		if sc.SwitchOptsAt > 0 && gen == sc.SwitchOptsAt {
			tuned := *sc.Opts
			tuned.SurvivalThresh = pick(c.G, 0.1, 0.35, 0.6, 0.95)
			tuned.AgeSignificance = 1 + c.G.Float64()
			tuned.DropOffAge = 1 + c.G.Intn(20)
			tuned.BabiesStolen = pick(c.G, 0, 2, tuned.PopSize/4)
			if sc.switchThreshold {
				tuned.CompatThreshold = sc.Opts.CompatThreshold * pick(c.G, 0.5, 0.8, 1.5)
			}
			sc.Opts = &tuned
			ctx = neat.NewContext(context.Background(), sc.Opts)
			if gen%2 == 0 {
				ctx = sc.Opts.NeatContext() // the context the options hand out themselves
			}
			c.Count("scenarios.options_object_switched", 1)
		}
		if sc.AbortAt > 0 && gen == sc.AbortAt {
			assignFitness(c.G, sc.Fitness, gen, pop)
			cctx, cancel := context.WithCancel(ctx)
			prevHook := genetics.VerifHooks.ReproduceStart
			var started int32
			after := int32(1 + c.G.Intn(3))
			genetics.VerifHooks.ReproduceStart = func(s *genetics.Species, p *genetics.Population, generation int) {
				if prevHook != nil {
					prevHook(s, p, generation)
				}
				if atomic.AddInt32(&started, 1) == after {
					cancel()
				}
			}
			aerr := ex.NextEpoch(cctx, gen, pop)
			cancel()
			genetics.VerifHooks.ReproduceStart = prevHook
			if aerr != nil {
				c.Count("epochs.aborted_by_cancellation_then_made_again", 1)
			} else {
				c.Count("epochs.cancellation_came_too_late", 1)
				mon.BeforeEpoch(c, sc, gen, pop) // (the monitors did not see the state before this turnover: end the scenario)
				return
			}
		}
		assignFitness(c.G, sc.Fitness, gen, pop)
		var preSnaps []*SnapGenome
		if sc.Ctor == ctorRandom {
			for _, org := range pop.Organisms {
				preSnaps = append(preSnaps, snapGenome(org.Genotype))
			}
		}
		mon.BeforeEpoch(c, sc, gen, pop)
		err = ex.NextEpoch(ctx, gen, pop)
		c.Eval(1)
		if err == nil && sc.Ctor == ctorRandom && geneLessChildSurvived(c, sc, gen, pop, preSnaps) {
			return
		}
		if err != nil && sc.AbortAt > 0 && gen == sc.AbortAt {
			c.Count("epochs.retry_after_abort_failed", 1)
			return
		}
		if !mon.AfterEpoch(c, sc, gen, pop, err) {
			return
		}
		if err != nil {
			return
		}
	}
	if sc.CancelAtEnd {
		// one more turnover whose context is cancelled while the species reproduce: whatever it returns, nothing may still
		// be working on the population once NextEpoch has returned (the reads below race with any straggler)
		cctx, cancel := context.WithCancel(context.Background())
		var n int32
		after := int32(1 + c.G.Intn(3))
		genetics.VerifHooks = genetics.VerifHookSet{ReproduceStart: func(s *genetics.Species, p *genetics.Population, generation int) {
			if atomic.AddInt32(&n, 1) == after {
				cancel()
			}
		}}
		assignFitness(c.G, sc.Fitness, sc.Epochs, pop)
		cerr := ex.NextEpoch(neat.NewContext(cctx, sc.Opts), sc.Epochs, pop)
		cancel()
		if cerr != nil {
			c.Count("epochs.cancelled_mid_reproduction", 1)
		} else {
			c.Count("epochs.cancel_came_too_late", 1)
		}
		sum := 0
		for _, org := range pop.Organisms {
			sum += len(snapGenome(org.Genotype).Genes)
		}
		for _, sp := range pop.Species {
			sum += len(sp.Organisms) + sp.ExpectedOffspring
		}
		sum += len(pop.Innovations())
		_ = sum
	}
}

// countEpochFeatures derives which branches of the epoch will be taken from the pre-state (evidence only)
type speciesPre struct {
	sp      *genetics.Species
	id      int
	age     int
	novel   bool
	lastImp int
	members []*genetics.Organism
	fitness []float64
}

func snapSpecies(pop *genetics.Population) []*speciesPre {
	res := make([]*speciesPre, 0, len(pop.Species))
	for _, s := range pop.Species {
		p := &speciesPre{sp: s, id: s.Id, age: s.Age, novel: s.IsNovel, lastImp: s.AgeOfLastImprovement}
		for _, o := range s.Organisms {
			p.members = append(p.members, o)
			p.fitness = append(p.fitness, o.Fitness)
		}
		res = append(res, p)
	}
	return res
}

// The finding recorded in known_findings.json: mateSinglePoint of two genomes without common genes, where every gene of
// the larger parent precedes the first gene of the smaller one, yields a child without genes (NewPopulationRandom only).
const keyGeneLessChild = "mate_singlepoint:gene-less-child:parents-without-common-genes"

// diagnoseGeneLessChild searches the pre-epoch genomes for a pair which reproduces the recorded finding and confirms it
// by mating independent copies. Returns the witness or nil.
func diagnoseGeneLessChild(snaps []*SnapGenome) map[string]interface{} {
	type rng struct {
		s        *SnapGenome
		min, max int64
	}
	var rs []rng
	for _, s := range snaps {
		if len(s.Genes) == 0 {
			continue
		}
		rs = append(rs, rng{s, s.Genes[0].Innov, s.Genes[len(s.Genes)-1].Innov})
	}
	for _, x := range rs {
		for _, y := range rs {
			if len(x.s.Genes) <= len(y.s.Genes) && y.max < x.min {
				a, b := buildFromSnap(x.s), buildFromSnap(y.s)
				for _, pair := range [][2]*genetics.Genome{{a, b}, {b, a}} {
					child, err := pair[0].VerifMateSinglePoint(pair[1], 1)
					if err == nil && child != nil && len(child.Genes) == 0 {
						return map[string]interface{}{"smaller_parent": x.s, "larger_parent": y.s}
					}
				}
			}
		}
	}
	return nil
}

// geneLessChildSurvived handles the silent manifestation of the recorded finding: a gene-less child of mateSinglePoint which
// was not mutated afterwards becomes an organism of the new generation without any error (the next epoch would fail or
// panic in rand.Intn(0) when it is chosen as a parent). The scenario ends here: a gene-less genome is outside of every
// quantifier. Only when a pair of genomes of the previous generation reproduces the finding; anything else is left to the
// monitors.
func geneLessChildSurvived(c *Ctx, sc *EvoScenario, gen int, pop *genetics.Population, preSnaps []*SnapGenome) bool {
	var geneLess *genetics.Organism
	for _, org := range pop.Organisms {
		if len(org.Genotype.Genes) == 0 {
			geneLess = org
			break
		}
	}
	if geneLess == nil {
		return false
	}
	w := diagnoseGeneLessChild(preSnaps)
	if w == nil {
		return false
	}
	c.Count("scenarios.stopped_at_gene_less_child_of_random_population", 1)
	switch c.Prop.ID {
	case "C01", "C16":
		c.Violate("wf/genesis", map[string]interface{}{"key": keyGeneLessChild, "witness": w, "scenario": sc.brief(), "generation": gen},
			"organism of generation %d has no genes and can not be expressed as a network (child of mateSinglePoint of unrelated random genomes)", gen+1)
	}
	return true
}
