package main

import (
	"fmt"
	"math"
	"math/rand"

	"github.com/yaricom/goNEAT/v4/neat"
	"github.com/yaricom/goNEAT/v4/neat/genetics"
	neatmath "github.com/yaricom/goNEAT/v4/neat/math"
	"github.com/yaricom/goNEAT/v4/neat/network"
)

// Network descriptions owned by the harness: the oracles (topological evaluation, longest path) work on this plain data.

type netEdge struct {
	From, To int // node indexes in topological order (sensors first, then hidden, outputs last)
	W        float64
	Back     bool // the edge goes against the order (cycles)
}

type netSpec struct {
	NIn, NBias, NHid, NOut int
	Acts                   []neatmath.NodeActivationType // per node index
	Edges                  []netEdge
}

func (s *netSpec) total() int   { return s.NIn + s.NBias + s.NHid + s.NOut }
func (s *netSpec) sensors() int { return s.NIn + s.NBias }
func (s *netSpec) id(i int) int { return i + 1 }
func (s *netSpec) isOutput(i int) bool {
	return i >= s.sensors()+s.NHid
}

func (s *netSpec) brief() map[string]interface{} {
	edges := make([]string, 0, len(s.Edges))
	for i, e := range s.Edges {
		if i >= 16 {
			edges = append(edges, fmt.Sprintf("... %d more", len(s.Edges)-i))
			break
		}
		edges = append(edges, fmt.Sprintf("%d>%d:%.3g", s.id(e.From), s.id(e.To), e.W))
	}
	return map[string]interface{}{"inputs": s.NIn, "bias": s.NBias, "hidden": s.NHid, "outputs": s.NOut, "edges": edges}
}

type netGenOpts struct {
	maxIn, maxBias, maxHid, maxOut int
	minHid                         int
	edgeProb                       float64
	weightScale                    float64
	acts                           []neatmath.NodeActivationType
	reachable                      bool // every neuron gets a predecessor (so it is reachable from a sensor)
	backEdges                      int  // number of edges against the order (cycles, self-loops)
}

// genNet draws random layered graph; sensors [0,ns), hidden [ns,ns+nHid), outputs after; forward edges go from lower to
// higher index and never into a sensor nor out of an output
func genNet(r *rand.Rand, o netGenOpts) *netSpec {
	s := &netSpec{NIn: 1 + r.Intn(o.maxIn), NBias: r.Intn(o.maxBias + 1), NHid: o.minHid + r.Intn(o.maxHid-o.minHid+1), NOut: 1 + r.Intn(o.maxOut)}
	ns := s.sensors()
	total := s.total()
	s.Acts = make([]neatmath.NodeActivationType, total)
	for i := 0; i < ns; i++ {
		s.Acts[i] = neatmath.NullActivation
	}
	w := func() float64 { return r.NormFloat64() * o.weightScale }
	has := map[[2]int]bool{}
	add := func(u, v int, back bool) {
		if has[[2]int{u, v}] {
			return
		}
		has[[2]int{u, v}] = true
		s.Edges = append(s.Edges, netEdge{From: u, To: v, W: w(), Back: back})
	}
	for v := ns; v < total; v++ {
		s.Acts[v] = o.acts[r.Intn(len(o.acts))]
		maxU := v
		if s.isOutput(v) {
			maxU = ns + s.NHid // outputs are fed by sensors and hidden nodes only
		}
		if o.reachable {
			add(r.Intn(maxU), v, false)
		}
		for u := 0; u < maxU; u++ {
			if r.Float64() < o.edgeProb {
				add(u, v, false)
			}
		}
	}
	if len(s.Edges) == 0 {
		add(0, ns+s.NHid, false) // at least one link: sensor -> first output
	}
	for i := 0; i < o.backEdges; i++ {
		u := ns + r.Intn(s.NHid+s.NOut)
		v := ns + r.Intn(s.NHid+s.NOut)
		if u >= v {
			add(u, v, true)
		}
	}
	return s
}

// build constructs the network through the public API of the network package
func (s *netSpec) build() *network.Network {
	ns := s.sensors()
	total := s.total()
	nodes := make([]*network.NNode, total)
	var in, out []*network.NNode
	for i := 0; i < total; i++ {
		switch {
		case i < s.NIn:
			nodes[i] = network.NewNNode(s.id(i), network.InputNeuron)
			in = append(in, nodes[i])
		case i < ns:
			nodes[i] = network.NewNNode(s.id(i), network.BiasNeuron)
			in = append(in, nodes[i])
		case i < ns+s.NHid:
			nodes[i] = network.NewNNode(s.id(i), network.HiddenNeuron)
		default:
			nodes[i] = network.NewNNode(s.id(i), network.OutputNeuron)
			out = append(out, nodes[i])
		}
		nodes[i].ActivationType = s.Acts[i]
	}
	for _, e := range s.Edges {
		l := nodes[e.To].ConnectFrom(nodes[e.From], e.W)
		l.IsRecurrent = e.Back
	}
	return network.NewNetwork(in, out, nodes, 1)
}

// genome builds the genome which expresses the network
func (s *netSpec) genome() *genetics.Genome {
	ns := s.sensors()
	total := s.total()
	tr := neat.NewTrait()
	tr.Id = 1
	nodes := make([]*network.NNode, total)
	for i := 0; i < total; i++ {
		switch {
		case i < s.NIn:
			nodes[i] = network.NewNNode(s.id(i), network.InputNeuron)
		case i < ns:
			nodes[i] = network.NewNNode(s.id(i), network.BiasNeuron)
		case i < ns+s.NHid:
			nodes[i] = network.NewNNode(s.id(i), network.HiddenNeuron)
		default:
			nodes[i] = network.NewNNode(s.id(i), network.OutputNeuron)
		}
		nodes[i].ActivationType = s.Acts[i]
	}
	genes := make([]*genetics.Gene, len(s.Edges))
	for i, e := range s.Edges {
		genes[i] = genetics.NewGeneWithTrait(tr, e.W, nodes[e.From], nodes[e.To], e.Back, int64(i+1), e.W)
	}
	return genetics.NewGenome(1, []*neat.Trait{tr}, nodes, genes)
}

// longest returns number of links on the longest path ending in an output (forward edges only) and per node values
func (s *netSpec) longest() (int, []int) {
	total := s.total()
	d := make([]int, total)
	best := 0
	for v := 0; v < total; v++ {
		for _, e := range s.Edges {
			if !e.Back && e.To == v && d[e.From]+1 > d[v] {
				d[v] = d[e.From] + 1
			}
		}
		if s.isOutput(v) && d[v] > best {
			best = d[v]
		}
	}
	return best, d
}

// eval evaluates every neuron once in topological order; bias inputs are one. Returns the outputs, all node values and
// the pre-activation sums.
func (s *netSpec) eval(inputs []float64) (outs, vals, sums []float64) {
	ns := s.sensors()
	total := s.total()
	vals = make([]float64, total)
	sums = make([]float64, total)
	for i := 0; i < s.NIn; i++ {
		vals[i] = inputs[i]
	}
	for i := s.NIn; i < ns; i++ {
		vals[i] = 1
	}
	for v := ns; v < total; v++ {
		sum := 0.0
		for _, e := range s.Edges {
			if e.To == v && !e.Back {
				sum += e.W * vals[e.From]
			}
		}
		sums[v] = sum
		vals[v] = refActivation(s.Acts[v], sum)
	}
	return vals[ns+s.NHid:], vals, sums
}

func vecClose(a, b []float64, rel, abs float64) bool {
	if len(a) != len(b) {
		return false
	}
	for i := range a {
		if a[i] == b[i] {
			continue
		}
		if math.IsNaN(a[i]) || math.IsNaN(b[i]) {
			return false
		}
		if math.Abs(a[i]-b[i]) > rel*math.Max(math.Abs(a[i]), math.Abs(b[i]))+abs {
			return false
		}
	}
	return true
}

func vecBitsEqual(a, b []float64) bool {
	if len(a) != len(b) {
		return false
	}
	for i := range a {
		if math.Float64bits(a[i]) != math.Float64bits(b[i]) && !(math.IsNaN(a[i]) && math.IsNaN(b[i])) {
			return false
		}
	}
	return true
}

func randInputs(r *rand.Rand, n int, scale float64) []float64 {
	in := make([]float64, n)
	for i := range in {
		in[i] = r.NormFloat64() * scale
	}
	return in
}

// full returns complete description of the network for witnesses
func (s *netSpec) full() map[string]interface{} {
	edges := make([]string, 0, len(s.Edges))
	for _, e := range s.Edges {
		b := ""
		if e.Back {
			b = " (back)"
		}
		edges = append(edges, fmt.Sprintf("%d>%d:%v%s", s.id(e.From), s.id(e.To), e.W, b))
	}
	acts := make([]string, len(s.Acts))
	for i, a := range s.Acts {
		acts[i], _ = neatmath.NodeActivators.ActivationNameFromType(a)
	}
	return map[string]interface{}{"inputs": s.NIn, "bias": s.NBias, "hidden": s.NHid, "outputs": s.NOut, "edges": edges, "activations_by_node": acts}
}
