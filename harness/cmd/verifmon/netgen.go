package main

import (
	"fmt"
	"math"
	"math/rand"

	"github.com/yaricom/goNEAT/v4/neat"
	"github.com/yaricom/goNEAT/v4/neat/genetics"
	neatmath "github.com/yaricom/goNEAT/v4/neat/math"
	"github.com/yaricom/goNEAT/v4/neat/network"
)

// Network descriptions owned by the harness: the oracles (topological evaluation, longest path) work on this plain data.

type netEdge struct {
	From, To int // node indexes in topological order (sensors first, then hidden, outputs last)
	W        float64
	Back     bool // the edge goes against the order (cycles)
	Delayed  bool // the link is time delayed (Link.IsTimeDelayed; only the network API can express it, genes can not)
	RecFlag  bool // a forward edge which merely carries the recurrent label (as a gene flagged recurrent does); no cycle
}

type netSpec struct {
	NIn, NBias, NHid, NOut int
	Acts                   []neatmath.NodeActivationType // per node index
	Edges                  []netEdge
	// OutOrder, when set, is the order of the output neurons in the outputs list handed to NewNetwork (position k holds the
	// OutOrder[k]-th output neuron); NodeOrder the order of all neurons in the node list. Only direct builds honour them.
	OutOrder  []int
	NodeOrder []int
	// InAlias: the inputs list handed to NewNetwork is a sub-slice of the node list (all[:k], spare capacity behind it) instead of
	// a list of its own. NodeParams, when set, are assigned to the exported Params field of the neurons (auxiliary parameters
	// which no built-in activation function reads).
	InAlias    bool
	NodeParams [][]float64
}

func (s *netSpec) total() int   { return s.NIn + s.NBias + s.NHid + s.NOut }
func (s *netSpec) sensors() int { return s.NIn + s.NBias }
func (s *netSpec) id(i int) int { return i + 1 }
func (s *netSpec) isOutput(i int) bool {
	return i >= s.sensors()+s.NHid
}

func (s *netSpec) brief() map[string]interface{} {
	edges := make([]string, 0, len(s.Edges))
	for i, e := range s.Edges {
		if i >= 16 {
			edges = append(edges, fmt.Sprintf("... %d more", len(s.Edges)-i))
			break
		}
		edges = append(edges, fmt.Sprintf("%d>%d:%.3g", s.id(e.From), s.id(e.To), e.W))
	}
	return map[string]interface{}{"inputs": s.NIn, "bias": s.NBias, "hidden": s.NHid, "outputs": s.NOut, "edges": edges}
}

type netGenOpts struct {
	maxIn, maxBias, maxHid, maxOut int
	minHid                         int
	edgeProb                       float64
	weightScale                    float64
	acts                           []neatmath.NodeActivationType
	reachable                      bool    // every neuron gets a predecessor (so it is reachable from a sensor)
	backEdges                      int     // number of edges against the order (cycles, self-loops)
	flagForward                    float64 // probability that a forward edge carries the recurrent label
	timeDelayed                    float64 // probability that a link is time delayed
	outToOut                       float64 // probability of a forward link from an output to a later output
	chain                          bool    // every hidden neuron is fed by its predecessor (a chain through all hidden neurons)
}

// genNet draws random layered graph; sensors [0,ns), hidden [ns,ns+nHid), outputs after; forward edges go from lower to
// higher index and never into a sensor nor out of an output
func genNet(r *rand.Rand, o netGenOpts) *netSpec {
	s := &netSpec{NIn: 1 + r.Intn(o.maxIn), NBias: r.Intn(o.maxBias + 1), NHid: o.minHid + r.Intn(o.maxHid-o.minHid+1), NOut: 1 + r.Intn(o.maxOut)}
	ns := s.sensors()
	total := s.total()
	s.Acts = make([]neatmath.NodeActivationType, total)
	for i := 0; i < ns; i++ {
		s.Acts[i] = neatmath.NullActivation
	}
	w := func() float64 { return r.NormFloat64() * o.weightScale }
	has := map[[2]int]bool{}
	add := func(u, v int, back bool) {
		if has[[2]int{u, v}] {
			return
		}
		has[[2]int{u, v}] = true
		s.Edges = append(s.Edges, netEdge{From: u, To: v, W: w(), Back: back, RecFlag: !back && o.flagForward > 0 && r.Float64() < o.flagForward,
			Delayed: o.timeDelayed > 0 && r.Float64() < o.timeDelayed})
	}
	for v := ns; v < total; v++ {
		s.Acts[v] = o.acts[r.Intn(len(o.acts))]
		maxU := v
		if s.isOutput(v) {
			maxU = ns + s.NHid // outputs are fed by sensors and hidden nodes only
		}
		if o.chain && v > ns && !s.isOutput(v) {
			add(v-1, v, false)
		} else if o.chain && s.isOutput(v) && s.NHid > 0 {
			add(ns+s.NHid-1, v, false)
		} else if o.reachable {
			add(r.Intn(maxU), v, false)
		}
		for u := 0; u < maxU; u++ {
			if r.Float64() < o.edgeProb {
				add(u, v, false)
			}
		}
		if s.isOutput(v) && o.outToOut > 0 {
			for u := ns + s.NHid; u < v; u++ {
				if r.Float64() < o.outToOut {
					add(u, v, false) // an output that feeds a later output (still acyclic)
				}
			}
		}
	}
	if len(s.Edges) == 0 {
		add(0, ns+s.NHid, false) // at least one link: sensor -> first output
	}
	for i := 0; i < o.backEdges; i++ {
		u := ns + r.Intn(s.NHid+s.NOut)
		v := ns + r.Intn(s.NHid+s.NOut)
		if u >= v {
			add(u, v, true)
		}
	}
	return s
}

// build constructs the network through the public API of the network package
func (s *netSpec) build() *network.Network {
	ns := s.sensors()
	total := s.total()
	nodes := make([]*network.NNode, total)
	if s.InAlias {
		nodes = make([]*network.NNode, total, 2*total+2) // a list grown by append has spare capacity behind it
	}
	var in, out []*network.NNode
	for i := 0; i < total; i++ {
		switch {
		case i < s.NIn:
			nodes[i] = network.NewNNode(s.id(i), network.InputNeuron)
			in = append(in, nodes[i])
		case i < ns:
			nodes[i] = network.NewNNode(s.id(i), network.BiasNeuron)
			in = append(in, nodes[i])
		case i < ns+s.NHid:
			nodes[i] = network.NewNNode(s.id(i), network.HiddenNeuron)
		default:
			nodes[i] = network.NewNNode(s.id(i), network.OutputNeuron)
			out = append(out, nodes[i])
		}
		nodes[i].ActivationType = s.Acts[i]
	}
	for _, e := range s.Edges {
		l := nodes[e.To].ConnectFrom(nodes[e.From], e.W)
		l.IsRecurrent = e.Back || e.RecFlag
		l.IsTimeDelayed = e.Delayed
	}
	if len(s.NodeParams) == total {
		for i := ns; i < total; i++ {
			nodes[i].Params = append([]float64{}, s.NodeParams[i]...)
		}
	}
	if s.InAlias && len(s.NodeOrder) != len(nodes) {
		in = nodes[:ns]
	}
	if len(s.OutOrder) == len(out) {
		po := make([]*network.NNode, len(out))
		for k, j := range s.OutOrder {
			po[k] = out[j]
		}
		out = po
	}
	if len(s.NodeOrder) == len(nodes) {
		pn := make([]*network.NNode, len(nodes))
		for k, j := range s.NodeOrder {
			pn[k] = nodes[j]
		}
		nodes = pn
	}
	return network.NewNetwork(in, out, nodes, 1)
}

// genome builds the genome which expresses the network
func (s *netSpec) genome() *genetics.Genome {
	ns := s.sensors()
	total := s.total()
	tr := neat.NewTrait()
	tr.Id = 1
	nodes := make([]*network.NNode, total)
	for i := 0; i < total; i++ {
		switch {
		case i < s.NIn:
			nodes[i] = network.NewNNode(s.id(i), network.InputNeuron)
		case i < ns:
			nodes[i] = network.NewNNode(s.id(i), network.BiasNeuron)
		case i < ns+s.NHid:
			nodes[i] = network.NewNNode(s.id(i), network.HiddenNeuron)
		default:
			nodes[i] = network.NewNNode(s.id(i), network.OutputNeuron)
		}
		nodes[i].ActivationType = s.Acts[i]
	}
	genes := make([]*genetics.Gene, len(s.Edges))
	for i, e := range s.Edges {
		genes[i] = genetics.NewGeneWithTrait(tr, e.W, nodes[e.From], nodes[e.To], e.Back || e.RecFlag, int64(i+1), e.W)
	}
	return genetics.NewGenome(1, []*neat.Trait{tr}, nodes, genes)
}

// longest returns number of links on the longest path ending in an output (forward edges only) and per node values
func (s *netSpec) longest() (int, []int) {
	total := s.total()
	d := make([]int, total)
	best := 0
	for v := 0; v < total; v++ {
		for _, e := range s.Edges {
			if !e.Back && e.To == v && d[e.From]+1 > d[v] {
				d[v] = d[e.From] + 1
			}
		}
		if s.isOutput(v) && d[v] > best {
			best = d[v]
		}
	}
	return best, d
}

// eval evaluates every neuron once in topological order; bias inputs are one. Returns the outputs, all node values and
// the pre-activation sums.
func (s *netSpec) eval(inputs []float64) (outs, vals, sums []float64) {
	ns := s.sensors()
	total := s.total()
	vals = make([]float64, total)
	sums = make([]float64, total)
	for i := 0; i < s.NIn; i++ {
		vals[i] = inputs[i]
	}
	for i := s.NIn; i < ns; i++ {
		vals[i] = 1
	}
	for v := ns; v < total; v++ {
		sum := 0.0
		for _, e := range s.Edges {
			if e.To == v && !e.Back {
				sum += e.W * vals[e.From]
			}
		}
		sums[v] = sum
		vals[v] = refActivation(s.Acts[v], sum)
	}
	outs = vals[ns+s.NHid:]
	if len(s.OutOrder) == len(outs) {
		po := make([]float64, len(outs))
		for k, j := range s.OutOrder {
			po[k] = outs[j]
		}
		outs = po
	}
	return outs, vals, sums
}

func vecClose(a, b []float64, rel, abs float64) bool {
	if len(a) != len(b) {
		return false
	}
	for i := range a {
		if a[i] == b[i] {
			continue
		}
		if math.IsNaN(a[i]) || math.IsNaN(b[i]) {
			return false
		}
		if math.Abs(a[i]-b[i]) > rel*math.Max(math.Abs(a[i]), math.Abs(b[i]))+abs {
			return false
		}
	}
	return true
}

func vecBitsEqual(a, b []float64) bool {
	if len(a) != len(b) {
		return false
	}
	for i := range a {
		if math.Float64bits(a[i]) != math.Float64bits(b[i]) && !(math.IsNaN(a[i]) && math.IsNaN(b[i])) {
			return false
		}
	}
	return true
}

func randInputs(r *rand.Rand, n int, scale float64) []float64 {
	in := make([]float64, n)
	for i := range in {
		in[i] = r.NormFloat64() * scale
	}
	return in
}

// full returns complete description of the network for witnesses
func (s *netSpec) full() map[string]interface{} {
	edges := make([]string, 0, len(s.Edges))
	for _, e := range s.Edges {
		b := ""
		if e.Back {
			b = " (back)"
		}
		edges = append(edges, fmt.Sprintf("%d>%d:%v%s", s.id(e.From), s.id(e.To), e.W, b))
	}
	acts := make([]string, len(s.Acts))
	for i, a := range s.Acts {
		acts[i], _ = neatmath.NodeActivators.ActivationNameFromType(a)
	}
	return map[string]interface{}{"inputs": s.NIn, "bias": s.NBias, "hidden": s.NHid, "outputs": s.NOut, "edges": edges, "activations_by_node": acts,
		"outputs_list_order": s.OutOrder, "node_list_order": s.NodeOrder, "inputs_list_is_slice_of_node_list": s.InAlias, "node_params": s.NodeParams}
}

// netModule a MIMO module laid over the nodes of a netSpec: control node with inputs and one output (the module
// activators of the library return one value)
type netModule struct {
	Ins []int // node indexes
	Out int
	Act neatmath.NodeActivationType
}

// genModules draws 1-3 modules; inputs among sensors / hidden nodes, the output a hidden or output node behind them. Two
// modules may share an input node.
func genModules(r *rand.Rand, s *netSpec) []netModule {
	var mods []netModule
	ns := s.sensors()
	if s.NHid == 0 {
		return nil
	}
	n := 1 + r.Intn(3)
	for k := 0; k < n; k++ {
		m := netModule{Act: pick(r, neatmath.MultiplyModuleActivation, neatmath.MaxModuleActivation, neatmath.MinModuleActivation)}
		cnt := 1 + r.Intn(2)
		maxIn := 0
		for i := 0; i < cnt; i++ {
			u := r.Intn(ns + s.NHid)
			if k > 0 && r.Intn(3) == 0 {
				u = mods[0].Ins[0] // shared with the first module
			}
			dup := false
			for _, x := range m.Ins {
				dup = dup || x == u
			}
			if dup {
				continue
			}
			m.Ins = append(m.Ins, u)
			if u > maxIn {
				maxIn = u
			}
		}
		lo := maxIn + 1
		if lo < ns {
			lo = ns
		}
		if lo >= s.total() {
			continue
		}
		m.Out = lo + r.Intn(s.total()-lo)
		mods = append(mods, m)
	}
	return mods
}

// buildModular constructs the network of the spec with the modules laid over it
func (s *netSpec) buildModular(mods []netModule) *network.Network {
	base := s.build()
	nodes := base.BaseNodes()
	var in, out []*network.NNode
	for i, nd := range nodes {
		if i < s.sensors() {
			in = append(in, nd)
		} else if s.isOutput(i) {
			out = append(out, nd)
		}
	}
	control := []*network.NNode{}
	for k, m := range mods {
		cn := network.NewNNode(s.total()+1+k, network.HiddenNeuron)
		cn.ActivationType = m.Act
		for _, u := range m.Ins {
			cn.Incoming = append(cn.Incoming, network.NewLink(1.0, nodes[u], cn, false))
		}
		cn.Outgoing = append(cn.Outgoing, network.NewLink(1.0, cn, nodes[m.Out], false))
		control = append(control, cn)
	}
	return network.NewModularNetwork(in, out, nodes, control, 1)
}

// ladderNet: a network of dozens to hundreds of hidden neurons that stays cheap to search - one long chain from the first
// input to the first output plus a handful of forward skip links (among them, now and then, a direct link from a sensor to
// an output), so that most outputs are reached by a short and by a long path.
func ladderNet(r *rand.Rand) *netSpec {
	s := &netSpec{NIn: 1 + r.Intn(2), NBias: r.Intn(2), NHid: pick(r, 30+r.Intn(30), 62+r.Intn(6), 70+r.Intn(60), 130+r.Intn(200)), NOut: 1 + r.Intn(2)}
	ns, total := s.sensors(), s.total()
	s.Acts = make([]neatmath.NodeActivationType, total)
	for i := range s.Acts {
		s.Acts[i] = neatmath.SigmoidSteepenedActivation
		if i < ns {
			s.Acts[i] = neatmath.NullActivation
		}
	}
	has := map[[2]int]bool{}
	add := func(u, v int) {
		if !has[[2]int{u, v}] {
			has[[2]int{u, v}] = true
			s.Edges = append(s.Edges, netEdge{From: u, To: v, W: r.NormFloat64()})
		}
	}
	add(0, ns)
	for v := ns + 1; v < ns+s.NHid; v++ {
		add(v-1, v)
	}
	firstOut := ns + s.NHid
	// the chain ends in the first output, or some links before its end
	add(firstOut-1-r.Intn(3), firstOut)
	for o := firstOut + 1; o < total; o++ {
		add(ns+r.Intn(s.NHid), o)
	}
	for k := 0; k < 1+r.Intn(6); k++ {
		u := r.Intn(firstOut - 2)
		v := u + 2 + r.Intn(firstOut-u-2)
		if v < ns {
			v = ns + r.Intn(s.NHid)
		}
		add(u, v)
	}
	if r.Intn(2) == 0 {
		add(r.Intn(ns), firstOut+r.Intn(s.NOut)) // sensor -> output
	}
	return s
}

// wideNet: a layered network of a hundred to a few hundred neurons - many inputs and outputs, two or three wide hidden layers, every
// neuron fed by two to four neurons of the layer before (plus, now and then, a sensor or a bias directly); shallow, so that the
// library's path searches stay cheap.
func wideNet(r *rand.Rand, acts []neatmath.NodeActivationType) *netSpec {
	layers := 2 + r.Intn(2)
	width := 30 + r.Intn(71)
	s := &netSpec{NIn: 4 + r.Intn(9), NBias: r.Intn(3), NHid: layers * width, NOut: 2 + r.Intn(7)}
	ns, total := s.sensors(), s.total()
	s.Acts = make([]neatmath.NodeActivationType, total)
	for i := range s.Acts {
		s.Acts[i] = acts[r.Intn(len(acts))]
		if i < ns {
			s.Acts[i] = neatmath.NullActivation
		}
	}
	has := map[[2]int]bool{}
	add := func(u, v int) {
		if !has[[2]int{u, v}] {
			has[[2]int{u, v}] = true
			s.Edges = append(s.Edges, netEdge{From: u, To: v, W: r.NormFloat64() * 0.7})
		}
	}
	for v := ns; v < total; v++ {
		lo, hi := 0, ns // the layer before: the sensors, ...
		if l := (v - ns) / width; v < ns+s.NHid && l > 0 {
			lo, hi = ns+(l-1)*width, ns+l*width
		} else if v >= ns+s.NHid {
			lo, hi = ns+(layers-1)*width, ns+layers*width
		}
		for k := 0; k < 2+r.Intn(3); k++ {
			add(lo+r.Intn(hi-lo), v)
		}
		if r.Intn(5) == 0 {
			add(r.Intn(ns), v)
		}
	}
	return s
}
