package main

import (
	"fmt"
	"math/rand"

	"github.com/yaricom/goNEAT/v4/neat/genetics"
	"github.com/yaricom/goNEAT/v4/neat/network"
)

// C06 - duplicating a genome gives an exact, independent copy.

func init() {
	register(&Prop{
		ID: "C06", Level: "exploration", DesignRef: "DESIGN.md section 4 C06",
		Rule: "one case = one family (every fourth: the shipped modular genome and variants with disabled modules / nil traits): 60 (quick) / " +
			"200 (thorough) duplications of members; copy snapshot must equal the source in everything but the id, the sets of object " +
			"addresses must be disjoint, and after 1-10 random mutators applied to the copy (or to the source) the other side's snapshot " +
			"must be unchanged; plus one spawned population per case compared with its start genome. evaluations = duplications + " +
			"follow-up mutations. A duplication is non-trivial if the genome has a disabled or recurrent gene or a module; distinct by fingerprint.",
		Assumptions: []string{"genomes are well-formed; modular genomes are duplicated and then mutated only by the mutators which do not need a network"},
		Cases: func(tier string) int {
			if tier == "quick" {
				return 3200
			}
			return 24000
		},
		Run:      runC06,
		Required: []string{"duplications", "duplications.modular", "duplications.with_disabled", "duplications.with_recurrent", "duplications.with_nil_trait", "spawned.organisms", "followup.mutations"},
	})
}

func runC06(c *Ctx, idx int) {
	r := c.G
	o := genOpts(r)
	o.MutateToggleEnableProb = 0.3 + r.Float64()*0.5
	var f *Family
	modular := idx%4 == 3
	if modular {
		g, err := loadShippedGenome(modularGenomeFile)
		if err != nil {
			panic("harness: " + err.Error())
		}
		// variants: disabled modules, traits on nodes
		s := snapGenome(g)
		modularVariants(r, s)
		if r.Intn(2) == 0 {
			s.Modules[r.Intn(len(s.Modules))].En = false
		}
		for i := range s.Nodes {
			if r.Intn(3) == 0 {
				s.Nodes[i].TraitId = 1 + r.Intn(len(s.Traits))
			}
		}
		for i := range s.Genes {
			if r.Intn(4) == 0 {
				s.Genes[i].En = false
			}
			if r.Intn(4) == 0 {
				s.Genes[i].TraitId = 0
			}
			s.Genes[i].W = fbits(r.NormFloat64())
		}
		if r.Intn(2) == 0 {
			s.Modules[0].TraitId = 1 + r.Intn(len(s.Traits))
		}
		if r.Intn(2) == 0 {
			// the links of a module carry weights like any link: closed (zero), negative, anything - a copy keeps them
			for i := range s.Modules {
				for j := range s.Modules[i].InW {
					s.Modules[i].InW[j] = fbits(pick(r, 0.0, 1.0, -2.5, r.NormFloat64()))
				}
				for j := range s.Modules[i].OutW {
					s.Modules[i].OutW[j] = fbits(pick(r, 0.0, 1.0, 0.5, r.NormFloat64()))
				}
			}
			c.Count("families.module_links_with_weights_of_their_own", 1)
		}
		if r.Intn(3) == 0 {
			// ... and, like any link, a recurrence flag (the feedback connection of a module) or a trait
			for i := range s.Modules {
				m := &s.Modules[i]
				m.InRec, m.OutRec, m.InTr, m.OutTr = make([]bool, len(m.Ins)), make([]bool, len(m.Outs)), make([]int, len(m.Ins)), make([]int, len(m.Outs))
				for j := range m.Ins {
					m.InRec[j] = r.Intn(3) == 0
					if r.Intn(3) == 0 && len(s.Traits) > 0 {
						m.InTr[j] = s.Traits[r.Intn(len(s.Traits))].Id
					}
				}
				for j := range m.Outs {
					m.OutRec[j] = r.Intn(2) == 0
					if r.Intn(3) == 0 && len(s.Traits) > 0 {
						m.OutTr[j] = s.Traits[r.Intn(len(s.Traits))].Id
					}
				}
			}
			c.Count("families.module_links_with_recurrence_flags_or_traits", 1)
		}
		f = newFamilyFrom(buildFromSnap(s), "file:"+modularGenomeFile+"+variants", o)
	} else if idx%16 == 5 {
		// trait ids that are unique but neither consecutive nor ascending (1,3,2 / 4,9,7): duplication resolves traits by id.
		// Such a genome is only duplicated and mutated here, never mated (the crossovers index traits by position).
		sp := genSpec(r)
		sp.Traits = 3 + r.Intn(2)
		sg := snapGenome(buildGenome(r, sp, 1))
		perm := map[int]int{}
		ids := r.Perm(len(sg.Traits) * 3)
		for i := range sg.Traits {
			perm[sg.Traits[i].Id] = 1 + ids[i]
			sg.Traits[i].Id = 1 + ids[i]
		}
		for i := range sg.Nodes {
			if sg.Nodes[i].TraitId != 0 {
				sg.Nodes[i].TraitId = perm[sg.Nodes[i].TraitId]
			}
		}
		for i := range sg.Genes {
			if sg.Genes[i].TraitId != 0 {
				sg.Genes[i].TraitId = perm[sg.Genes[i].TraitId]
			}
		}
		f = newFamilyFrom(buildFromSnap(sg), "built: trait ids not consecutive", o)
		modular = true // (keeps the crossovers and the growth by operator histories away from it)
		c.Count("families.trait_ids_not_consecutive", 1)
	} else if idx%16 == 6 {
		// traits with parameter lists of another length than the library's default of eight (its own tests use six): none at
		// all, one, six; such a genome is duplicated, spawned from and mutated, never written or mated
		sp := genSpec(r)
		sg := snapGenome(buildGenome(r, sp, 1))
		for i := range sg.Traits {
			k := pick(r, 0, 0, 1, 6, 8)
			if k < len(sg.Traits[i].Params) {
				sg.Traits[i].Params = sg.Traits[i].Params[:k]
			}
		}
		if r.Intn(2) == 0 {
			// a hidden neuron that no gene refers to (NewPopulationRandom builds such genomes, a hand-written file may list one)
			top := 0
			for _, nd := range sg.Nodes {
				if nd.Id > top {
					top = nd.Id
				}
			}
			sg.Nodes = append(sg.Nodes, SnapNode{Id: top + 1 + r.Intn(3), Neuron: byte(network.HiddenNeuron), Act: sg.Nodes[len(sg.Nodes)-1].Act})
			c.Count("families.with_a_hidden_neuron_no_gene_refers_to", 1)
		}
		f = newFamilyFrom(buildFromSnap(sg), "built: traits with 0 / 1 / 6 parameters", o)
		c06Spawn(c, f, r)
		modular = true
		c.Count("families.traits_with_other_parameter_counts", 1)
	} else if idx%64 == 9 {
		f = newFamilyFrom(buildFromSnap(largeGenomeSnap(r)), "built: >500 nodes", o)
		modular = true
		c.Count("families.large_genome", 1)
	} else {
		f = newFamily(r, o)
		f.grow(r, 40+r.Intn(120))
	}
	n := 60
	if c.Tier == "thorough" {
		n = 200
	}
	for i := 0; i < n && !c.Violated(); i++ {
		if !modular && i%20 == 19 {
			f.grow(r, 15)
		}
		c06Duplication(c, f, r, modular)
	}
	if !modular && !c.Violated() {
		c06Spawn(c, f, r)
	}
}

var c06Followups = []opKind{opAddNode, opAddLink, opConnectSensors, opLinkWeights, opRandomTrait, opLinkTrait, opNodeTrait, opToggleEnable,
	opReEnable, opAllNonstructural}

// the mutators which do not need to express the genome as a network (modular genomes)
var c06FollowupsModular = []opKind{opLinkWeights, opRandomTrait, opLinkTrait, opNodeTrait, opToggleEnable, opReEnable, opAllNonstructural, opAddNode}

func c06Duplication(c *Ctx, f *Family, r *rand.Rand, modular bool) {
	src := f.pickMember(r)
	if modular && len(f.Members) > 1 && r.Intn(2) == 0 {
		src = f.Members[0]
	}
	// the source may have been expressed before it is copied: its nodes then point to their counterparts in the network,
	// which is part of the source's state as well (the recurrence test of add-link works from it)
	if r.Intn(2) == 0 {
		_, _ = src.Genesis(src.Id)
	}
	analogues := make([]*network.NNode, len(src.Nodes))
	for i, n := range src.Nodes {
		analogues[i] = n.PhenotypeAnalogue
	}
	before := snapGenome(src)
	dup, err := src.VerifDuplicate(f.newId())
	c.Eval(1)
	c.Count("duplications", 1)
	detail := func() map[string]interface{} {
		d := map[string]interface{}{"source": before, "start": f.StartSrc}
		if dup != nil {
			d["copy"] = snapGenome(dup)
		}
		return d
	}
	if err != nil || dup == nil {
		c.Violate("duplicate-error", detail(), "duplicate failed: %v", err)
		return
	}
	sd := snapGenome(dup)
	if d := diffGenomes(before, sd); d != "" {
		c.Violate("copy-differs", detail(), "the copy differs from the original: %s", d)
		return
	}
	if d := diffGenomes(before, snapGenome(src)); d != "" {
		c.Violate("source-modified", detail(), "duplication modified the original: %s", d)
		return
	}
	for i, n := range src.Nodes {
		if i < len(analogues) && n.PhenotypeAnalogue != analogues[i] {
			c.Violate("source-modified", detail(), "duplication changed the link between node %d of the original and its counterpart in the expressed network", n.Id)
			return
		}
	}
	if sh := genomePointers(src).sharedWith(genomePointers(dup)); sh != "" {
		c.Violate("shared-state", detail(), "the copy shares mutable state with the original: %s", sh)
		return
	}
	if why := lookupOwn(dup); why != "" {
		c.Violate("shared-state", detail(), "the copy's node look-up does not answer with the copy's own nodes: %s", why)
		return
	}
	if traitRefsOwn(src) == "" {
		if why := traitRefsOwn(dup); why != "" {
			c.Violate("trait-detached", detail(), "in the original every trait reference is one of its own trait objects, in the copy %s", why)
			return
		}
	}
	if len(before.Modules) > 0 {
		c.Count("duplications.modular", 1)
	}
	if before.countDisabled() > 0 {
		c.Count("duplications.with_disabled", 1)
	}
	if before.countRecurrent() > 0 {
		c.Count("duplications.with_recurrent", 1)
	}
	nilTrait := false
	for _, g := range before.Genes {
		nilTrait = nilTrait || g.TraitId == 0
	}
	for _, n := range before.Nodes {
		nilTrait = nilTrait || n.TraitId == 0
	}
	if nilTrait {
		c.Count("duplications.with_nil_trait", 1)
	}
	if before.countDisabled() > 0 || before.countRecurrent() > 0 || len(before.Modules) > 0 {
		c.Distinct(before.fingerprint())
	}
	// a sibling copy taken from the same source before anything is mutated: it must stay untouched as well
	sibling, serr := src.VerifDuplicate(f.newId())
	var siblingBefore *SnapGenome
	if serr == nil && sibling != nil {
		siblingBefore = snapGenome(sibling)
		if sh := genomePointers(dup).sharedWith(genomePointers(sibling)); sh != "" {
			c.Violate("shared-state", detail(), "two copies of one genome share mutable state with each other: %s", sh)
			return
		}
		c.Count("duplications.sibling_pairs", 1)
	}
	// independence: mutate one side, the other side must stay as it was
	mutated, other := dup, src
	side := "copy"
	if r.Intn(3) == 0 {
		mutated, other = src, dup
		side = "original"
		// the family keeps the untouched copy instead of the (now mutated) source
		for i, m := range f.Members {
			if m == src {
				f.Members[i] = dup
			}
		}
	}
	otherBefore := snapGenome(other)
	ops := c06Followups
	if modular {
		ops = c06FollowupsModular
	}
	k := 1 + r.Intn(10)
	var applied []string
	for i := 0; i < k; i++ {
		op := ops[r.Intn(len(ops))]
		_, merr := f.applyMutation(op, mutated, r)
		c.Eval(1)
		c.Count("followup.mutations", 1)
		applied = append(applied, op.String())
		if merr != nil {
			break
		}
		if d := diffGenomes(otherBefore, snapGenome(other)); d != "" {
			dd := detail()
			dd["mutated_side"] = side
			dd["mutators"] = applied
			c.Violate("not-independent", dd, "mutating the %s by %s changed the other genome: %s", side, op, d)
			return
		}
		for _, side := range []*genetics.Genome{mutated, other} {
			if why := lookupOwn(side); why != "" {
				dd := detail()
				dd["mutated_side"] = side == mutated
				dd["mutators"] = applied
				c.Violate("not-independent", dd, "after mutating a copy by %s the node look-up of one of the two genomes is out of step with its nodes: %s", op, why)
				return
			}
		}
		if siblingBefore != nil {
			if d := diffGenomes(siblingBefore, snapGenome(sibling)); d != "" {
				dd := detail()
				dd["mutated_side"] = side
				dd["mutators"] = applied
				c.Violate("not-independent", dd, "mutating the %s by %s changed a sibling copy of the same source: %s", side, op, d)
				return
			}
		}
	}
	if c.WantSample() && len(before.Genes) > 3 {
		c.Sample(map[string]interface{}{"source": before.brief(), "disabled": before.countDisabled(), "recurrent": before.countRecurrent(),
			"mutated_side": side, "followup": applied})
	}
	if !modular && side == "copy" && len(dup.Genes) > 0 {
		if kind, _ := wf(dup, nil, false); kind == "" {
			f.add(dup, r)
		}
	}
}

// c06Spawn checks that population spawned from a genome has exactly its topology and enabled flags and differs only in
// connection weights and mutation numbers which mirror them
func c06Spawn(c *Ctx, f *Family, r *rand.Rand) {
	start := f.pickMember(r)
	o := *f.Opts
	o.PopSize = 3 + r.Intn(12)
	ss := snapGenome(start)
	pop, err := genetics.NewPopulation(start, &o)
	if err != nil {
		c.Violate("spawn-error", map[string]interface{}{"start": ss}, "NewPopulation failed: %v", err)
		return
	}
	if d := diffGenomes(ss, snapGenome(start)); d != "" {
		c.Violate("source-modified", map[string]interface{}{"start": ss}, "spawning modified the start genome: %s", d)
		return
	}
	startPtrs := genomePointers(start)
	for i, org := range pop.Organisms {
		c.Eval(1)
		c.Count("spawned.organisms", 1)
		so := snapGenome(org.Genotype)
		if d := diffGenomesOpt(ss, so, true); d != "" {
			c.Violate("spawn-differs", map[string]interface{}{"start": ss, "organism": so}, "organism %d of the spawned population differs from the start genome: %s", i, d)
			return
		}
		for _, g := range so.Genes {
			if g.W != g.Mut {
				c.Violate("spawn-mutation-number", map[string]interface{}{"start": ss, "organism": so},
					"organism %d gene %d: mutation number %v does not mirror the weight %v", i, g.Innov, bitsf(g.Mut), bitsf(g.W))
				return
			}
		}
		if sh := startPtrs.sharedWith(genomePointers(org.Genotype)); sh != "" {
			c.Violate("shared-state", map[string]interface{}{"start": ss}, "organism %d of the spawned population shares state with the start genome: %s", i, sh)
			return
		}
	}
	if ss.countDisabled() > 0 {
		c.Count("spawned.from_genome_with_disabled", 1)
	}
	_ = fmt.Sprint
}

// lookupOwn checks that looking a node up by id answers with the genome's own node objects and knows no others
func lookupOwn(g *genetics.Genome) string {
	for _, n := range g.Nodes {
		if g.NodeWithId(n.Id) != n {
			return fmt.Sprintf("NodeWithId(%d) is not the genome's node", n.Id)
		}
	}
	if g.VerifNodeMapSize() != len(g.Nodes) {
		return fmt.Sprintf("the look-up knows %d nodes, the genome has %d", g.VerifNodeMapSize(), len(g.Nodes))
	}
	return ""
}

// traitRefsOwn reports the first node, control node or gene of the genome whose trait reference is not one of the trait
// objects in the genome's own list (a snapshot of a trait instead of the trait)
func traitRefsOwn(g *genetics.Genome) string {
	for _, n := range g.Nodes {
		if n != nil && n.Trait != nil && !ownTrait(g, n.Trait) {
			return fmt.Sprintf("node %d holds a trait object (id %d) that is not in the genome's trait list", n.Id, n.Trait.Id)
		}
	}
	for _, gn := range g.Genes {
		if gn != nil && gn.Link != nil && gn.Link.Trait != nil && !ownTrait(g, gn.Link.Trait) {
			return fmt.Sprintf("gene %d holds a trait object (id %d) that is not in the genome's trait list", gn.InnovationNum, gn.Link.Trait.Id)
		}
	}
	for _, cg := range g.ControlGenes {
		if cg != nil && cg.ControlNode != nil && cg.ControlNode.Trait != nil && !ownTrait(g, cg.ControlNode.Trait) {
			return fmt.Sprintf("control node %d holds a trait object (id %d) that is not in the genome's trait list", cg.ControlNode.Id, cg.ControlNode.Trait.Id)
		}
	}
	return ""
}
