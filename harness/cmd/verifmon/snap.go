package main

import (
	"encoding/binary"
	"fmt"
	"hash/fnv"
	"math"
	"reflect"
	"unsafe"

	"github.com/yaricom/goNEAT/v4/neat"
	"github.com/yaricom/goNEAT/v4/neat/genetics"
	"github.com/yaricom/goNEAT/v4/neat/network"
)

// Plain-data deep snapshots of genomes. They are built only from exported fields and never use library's own
// duplicate / IsEqual / verify as a yardstick.

type SnapTrait struct {
	Id     int      `json:"id"`
	Params []uint64 `json:"params"`
}

type SnapNode struct {
	Id      int  `json:"id"`
	Neuron  byte `json:"neuron"`
	Act     byte `json:"act"`
	TraitId int  `json:"trait"` // 0 - nil trait, -1 - foreign trait
}

type SnapGene struct {
	In      int    `json:"in"`
	Out     int    `json:"out"`
	Rec     bool   `json:"rec"`
	Innov   int64  `json:"innov"`
	W       uint64 `json:"w"`
	Mut     uint64 `json:"mut"`
	En      bool   `json:"en"`
	TraitId int    `json:"trait"`
}

type SnapModule struct {
	CtrlId  int      `json:"ctrl"`
	Act     byte     `json:"act"`
	TraitId int      `json:"trait"`
	Innov   int64    `json:"innov"`
	Mut     uint64   `json:"mut"`
	En      bool     `json:"en"`
	Ins     []int    `json:"ins"`
	Outs    []int    `json:"outs"`
	InW     []uint64 `json:"in_w"`
	OutW    []uint64 `json:"out_w"`
	// what a module link carries beside its weight: the recurrence flag and the trait (0 - none), per link
	InRec  []bool `json:"in_rec,omitempty"`
	OutRec []bool `json:"out_rec,omitempty"`
	InTr   []int  `json:"in_trait,omitempty"`
	OutTr  []int  `json:"out_trait,omitempty"`
}

type SnapGenome struct {
	Id      int          `json:"id"`
	Traits  []SnapTrait  `json:"traits"`
	Nodes   []SnapNode   `json:"nodes"`
	Genes   []SnapGene   `json:"genes"`
	Modules []SnapModule `json:"modules,omitempty"`
	// Broken describes structural damage which prevents faithful snapshot (nil pointers)
	Broken string `json:"broken,omitempty"`
}

func fbits(f float64) uint64 { return math.Float64bits(f) }
func bitsf(u uint64) float64 { return math.Float64frombits(u) }

func traitIdOf(t *neat.Trait) int {
	if t == nil {
		return 0
	}
	return t.Id
}

func snapGenome(g *genetics.Genome) *SnapGenome {
	s := &SnapGenome{Id: g.Id}
	for _, t := range g.Traits {
		if t == nil {
			s.Broken = "nil trait"
			continue
		}
		st := SnapTrait{Id: t.Id, Params: make([]uint64, len(t.Params))}
		for i, p := range t.Params {
			st.Params[i] = fbits(p)
		}
		s.Traits = append(s.Traits, st)
	}
	for _, n := range g.Nodes {
		if n == nil {
			s.Broken = "nil node"
			continue
		}
		s.Nodes = append(s.Nodes, SnapNode{Id: n.Id, Neuron: byte(n.NeuronType), Act: byte(n.ActivationType), TraitId: traitIdOf(n.Trait)})
	}
	for _, gn := range g.Genes {
		if gn == nil || gn.Link == nil || gn.Link.InNode == nil || gn.Link.OutNode == nil {
			s.Broken = "gene with nil link or endpoint"
			continue
		}
		s.Genes = append(s.Genes, SnapGene{In: gn.Link.InNode.Id, Out: gn.Link.OutNode.Id, Rec: gn.Link.IsRecurrent,
			Innov: gn.InnovationNum, W: fbits(gn.Link.ConnectionWeight), Mut: fbits(gn.MutationNum), En: gn.IsEnabled,
			TraitId: traitIdOf(gn.Link.Trait)})
	}
	for _, cg := range g.ControlGenes {
		if cg == nil || cg.ControlNode == nil {
			s.Broken = "nil control gene"
			continue
		}
		m := SnapModule{CtrlId: cg.ControlNode.Id, Act: byte(cg.ControlNode.ActivationType), TraitId: traitIdOf(cg.ControlNode.Trait),
			Innov: cg.InnovationNum, Mut: fbits(cg.MutationNum), En: cg.IsEnabled}
		for _, l := range cg.ControlNode.Incoming {
			if l == nil || l.InNode == nil {
				s.Broken = "module link with nil endpoint"
				continue
			}
			m.Ins = append(m.Ins, l.InNode.Id)
			m.InW = append(m.InW, fbits(l.ConnectionWeight))
			m.InRec = append(m.InRec, l.IsRecurrent)
			m.InTr = append(m.InTr, traitIdOf(l.Trait))
		}
		for _, l := range cg.ControlNode.Outgoing {
			if l == nil || l.OutNode == nil {
				s.Broken = "module link with nil endpoint"
				continue
			}
			m.Outs = append(m.Outs, l.OutNode.Id)
			m.OutW = append(m.OutW, fbits(l.ConnectionWeight))
			m.OutRec = append(m.OutRec, l.IsRecurrent)
			m.OutTr = append(m.OutTr, traitIdOf(l.Trait))
		}
		// the gene's own list must be its input nodes followed by its output nodes (that is how it is built); a snapshot does
		// not carry the list further (harness code edits Ins / Outs of snapshots)
		if io := controlGeneIO(cg); io != nil && !intsEqual(io, append(append([]int{}, m.Ins...), m.Outs...)) {
			s.Broken = fmt.Sprintf("control gene %d lists %v as its input / output nodes, its links join %v and %v", m.CtrlId, io, m.Ins, m.Outs)
		}
		s.Modules = append(s.Modules, m)
	}
	return s
}

func controlGeneIO(cg *genetics.MIMOControlGene) (ids []int) {
	defer func() {
		if recover() != nil {
			ids = nil
		}
	}()
	f := reflect.ValueOf(cg).Elem().FieldByName("ioNodes")
	if !f.IsValid() {
		return nil
	}
	ids = []int{}
	for i := 0; i < f.Len(); i++ {
		ids = append(ids, int(f.Index(i).Elem().FieldByName("Id").Int()))
	}
	return ids
}

func u64sEqual(a, b []uint64) bool {
	if len(a) != len(b) {
		return false
	}
	for i := range a {
		if a[i] != b[i] {
			return false
		}
	}
	return true
}

func intsEqual(a, b []int) bool {
	if len(a) != len(b) {
		return false
	}
	for i := range a {
		if a[i] != b[i] {
			return false
		}
	}
	return true
}

// diffGenomes returns description of the first difference or empty string. The genome id is ignored.
func diffGenomes(a, b *SnapGenome) string {
	return diffGenomesOpt(a, b, false)
}

// diffGenomesOpt compares snapshots; with ignoreWeights the gene weights and mutation numbers are not compared
func diffGenomesOpt(a, b *SnapGenome, ignoreWeights bool) string {
	if a.Broken != "" || b.Broken != "" {
		return fmt.Sprintf("broken genome: %q / %q", a.Broken, b.Broken)
	}
	if len(a.Traits) != len(b.Traits) {
		return fmt.Sprintf("traits count %d != %d", len(a.Traits), len(b.Traits))
	}
	for i := range a.Traits {
		if a.Traits[i].Id != b.Traits[i].Id || !u64sEqual(a.Traits[i].Params, b.Traits[i].Params) {
			return fmt.Sprintf("trait #%d differs: %v != %v", i, a.Traits[i], b.Traits[i])
		}
	}
	if len(a.Nodes) != len(b.Nodes) {
		return fmt.Sprintf("nodes count %d != %d", len(a.Nodes), len(b.Nodes))
	}
	for i := range a.Nodes {
		if a.Nodes[i] != b.Nodes[i] {
			return fmt.Sprintf("node #%d differs: %+v != %+v", i, a.Nodes[i], b.Nodes[i])
		}
	}
	if len(a.Genes) != len(b.Genes) {
		return fmt.Sprintf("genes count %d != %d", len(a.Genes), len(b.Genes))
	}
	for i := range a.Genes {
		x, y := a.Genes[i], b.Genes[i]
		if ignoreWeights {
			x.W, x.Mut, y.W, y.Mut = 0, 0, 0, 0
		}
		if x != y {
			return fmt.Sprintf("gene #%d differs: %s != %s", i, geneStr(a.Genes[i]), geneStr(b.Genes[i]))
		}
	}
	if len(a.Modules) != len(b.Modules) {
		return fmt.Sprintf("modules count %d != %d", len(a.Modules), len(b.Modules))
	}
	for i := range a.Modules {
		x, y := a.Modules[i], b.Modules[i]
		if x.CtrlId != y.CtrlId || x.Act != y.Act || x.TraitId != y.TraitId || x.Innov != y.Innov || x.Mut != y.Mut || x.En != y.En ||
			!intsEqual(x.Ins, y.Ins) || !intsEqual(x.Outs, y.Outs) || !u64sEqual(x.InW, y.InW) || !u64sEqual(x.OutW, y.OutW) {
			return fmt.Sprintf("module #%d differs: %+v != %+v", i, x, y)
		}
		if x.linkExtras() != y.linkExtras() {
			return fmt.Sprintf("module #%d differs in the recurrence flags / traits of its links: %+v != %+v", i, x, y)
		}
	}
	return ""
}

func geneStr(g SnapGene) string {
	return fmt.Sprintf("{%d->%d rec=%v innov=%d w=%v mut=%v en=%v trait=%d}", g.In, g.Out, g.Rec, g.Innov, bitsf(g.W), bitsf(g.Mut), g.En, g.TraitId)
}

type hasher struct {
	buf [8]byte
	h   interface {
		Write([]byte) (int, error)
		Sum64() uint64
	}
}

func newHasher() *hasher { return &hasher{h: fnv.New64a()} }
func (h *hasher) u64(x uint64) {
	binary.LittleEndian.PutUint64(h.buf[:], x)
	_, _ = h.h.Write(h.buf[:])
}
func (h *hasher) i(x int) { h.u64(uint64(int64(x))) }
func (h *hasher) b(x bool) {
	if x {
		h.u64(1)
	} else {
		h.u64(0)
	}
}
func (h *hasher) sum() uint64 { return splitmix(h.h.Sum64()) }

// fingerprint of the genome structure and parameters (id excluded)
func (s *SnapGenome) fingerprint() uint64 {
	h := newHasher()
	for _, t := range s.Traits {
		h.i(t.Id)
		for _, p := range t.Params {
			h.u64(p)
		}
	}
	h.i(-1)
	for _, n := range s.Nodes {
		h.i(n.Id)
		h.i(int(n.Neuron))
		h.i(int(n.Act))
		h.i(n.TraitId)
	}
	h.i(-2)
	for _, g := range s.Genes {
		h.i(g.In)
		h.i(g.Out)
		h.b(g.Rec)
		h.u64(uint64(g.Innov))
		h.u64(g.W)
		h.u64(g.Mut)
		h.b(g.En)
		h.i(g.TraitId)
	}
	h.i(-3)
	for _, m := range s.Modules {
		h.i(m.CtrlId)
		h.i(int(m.Act))
		h.u64(uint64(m.Innov))
		h.b(m.En)
		for _, x := range m.Ins {
			h.i(x)
		}
		h.i(-4)
		for _, x := range m.Outs {
			h.i(x)
		}
	}
	return h.sum()
}

// structural fingerprint: topology and flags, no weights
func (s *SnapGenome) structFingerprint() uint64 {
	h := newHasher()
	for _, n := range s.Nodes {
		h.i(n.Id)
		h.i(int(n.Neuron))
	}
	h.i(-2)
	for _, g := range s.Genes {
		h.i(g.In)
		h.i(g.Out)
		h.b(g.Rec)
		h.u64(uint64(g.Innov))
		h.b(g.En)
	}
	return h.sum()
}

func (s *SnapGenome) hasHidden() bool {
	for _, n := range s.Nodes {
		if n.Neuron == byte(network.HiddenNeuron) {
			return true
		}
	}
	return false
}

func (s *SnapGenome) countDisabled() int {
	c := 0
	for _, g := range s.Genes {
		if !g.En {
			c++
		}
	}
	return c
}

func (s *SnapGenome) countRecurrent() int {
	c := 0
	for _, g := range s.Genes {
		if g.Rec {
			c++
		}
	}
	return c
}

func (s *SnapGenome) countSelfLoops() int {
	c := 0
	for _, g := range s.Genes {
		if g.In == g.Out {
			c++
		}
	}
	return c
}

func (s *SnapGenome) nontrivial() bool {
	return s.hasHidden() && (s.countDisabled() > 0 || s.countRecurrent() > 0)
}

// brief returns compact description for evidence samples
func (s *SnapGenome) brief() map[string]interface{} {
	genes := make([]string, 0, len(s.Genes))
	for i, g := range s.Genes {
		if i >= 12 {
			genes = append(genes, fmt.Sprintf("... %d more", len(s.Genes)-i))
			break
		}
		f := ""
		if !g.En {
			f += "D"
		}
		if g.Rec {
			f += "R"
		}
		genes = append(genes, fmt.Sprintf("%d:%d>%d%s", g.Innov, g.In, g.Out, f))
	}
	return map[string]interface{}{"nodes": len(s.Nodes), "genes": genes, "traits": len(s.Traits), "modules": len(s.Modules)}
}

// ---------------------------------------------------------------------------------------------------------------------
// Pointer sets for aliasing checks

type ptrSet map[uintptr]string

func (p ptrSet) add(ptr unsafe.Pointer, what string) {
	if ptr != nil {
		p[uintptr(ptr)] = what
	}
}

func floatsPtr(f []float64) unsafe.Pointer {
	if cap(f) == 0 {
		return nil
	}
	return unsafe.Pointer(unsafe.SliceData(f))
}

// genomePointers collects addresses of every mutable object reachable from the genome
func genomePointers(g *genetics.Genome) ptrSet {
	ps := ptrSet{}
	for _, t := range g.Traits {
		if t != nil {
			ps.add(unsafe.Pointer(t), "trait")
			ps.add(floatsPtr(t.Params), "trait params")
		}
	}
	addNode := func(n *network.NNode, what string) {
		if n == nil {
			return
		}
		ps.add(unsafe.Pointer(n), what)
		ps.add(floatsPtr(n.Params), what+" params")
	}
	addLink := func(l *network.Link, what string) {
		if l == nil {
			return
		}
		ps.add(unsafe.Pointer(l), what)
		ps.add(floatsPtr(l.Params), what+" params")
	}
	for _, n := range g.Nodes {
		addNode(n, "node")
	}
	for _, gn := range g.Genes {
		if gn == nil {
			continue
		}
		ps.add(unsafe.Pointer(gn), "gene")
		addLink(gn.Link, "link")
		if gn.Link != nil {
			addNode(gn.Link.InNode, "gene endpoint")
			addNode(gn.Link.OutNode, "gene endpoint")
			if gn.Link.Trait != nil {
				ps.add(unsafe.Pointer(gn.Link.Trait), "link trait")
			}
		}
	}
	for _, n := range g.Nodes {
		if n != nil && n.Trait != nil {
			ps.add(unsafe.Pointer(n.Trait), "node trait")
		}
	}
	for _, cg := range g.ControlGenes {
		if cg == nil {
			continue
		}
		ps.add(unsafe.Pointer(cg), "control gene")
		if cg.ControlNode != nil {
			addNode(cg.ControlNode, "control node")
			for _, l := range cg.ControlNode.Incoming {
				addLink(l, "module link")
				if l != nil {
					addNode(l.InNode, "module endpoint")
				}
			}
			for _, l := range cg.ControlNode.Outgoing {
				addLink(l, "module link")
				if l != nil {
					addNode(l.OutNode, "module endpoint")
				}
			}
		}
	}
	return ps
}

func (p ptrSet) sharedWith(o ptrSet) string {
	for ptr, what := range p {
		if w2, ok := o[ptr]; ok {
			return fmt.Sprintf("%s shared (%s)", what, w2)
		}
	}
	return ""
}

// linkExtras writes out the recurrence flags and trait ids of a module's links; lists a harness generator left out stand for
// "not recurrent, no trait"
func (m SnapModule) linkExtras() string {
	out := ""
	for j := range m.Ins {
		out += fmt.Sprintf("i%v/%d ", j < len(m.InRec) && m.InRec[j], func() int {
			if j < len(m.InTr) {
				return m.InTr[j]
			}
			return 0
		}())
	}
	for j := range m.Outs {
		out += fmt.Sprintf("o%v/%d ", j < len(m.OutRec) && m.OutRec[j], func() int {
			if j < len(m.OutTr) {
				return m.OutTr[j]
			}
			return 0
		}())
	}
	return out
}
