package main

import (
	"context"
	"errors"
	"fmt"
	"math/rand"
	"os"
	"os/exec"
	"path/filepath"
	"regexp"
	"strings"
	"sync"
	"syscall"
	"time"

	"github.com/yaricom/goNEAT/v4/experiment"
	"github.com/yaricom/goNEAT/v4/neat"
	"github.com/yaricom/goNEAT/v4/neat/genetics"
)

// C20 - an experiment run follows its trial / generation protocol exactly.

type c20Fault struct {
	Kind string `json:"kind"` // eval_error_solved (the evaluator flags the generation solved and returns an error) | none | eval_error | cancel_in_eval | cancel_in_epoch_evaluated | cancel_in_trial_started | cancel_in_trial_finished | cancel_mid_epoch
	R    int    `json:"trial"`
	G    int    `json:"generation"`
}

type c20Case struct {
	Runs     int      `json:"runs"`
	Gens     int      `json:"generations"`
	SolvedAt []int    `json:"solved_at"` // per trial: generation reported solved or -1
	Observer bool     `json:"observer"`
	Long     bool     `json:"long,omitempty"`
	Parallel bool     `json:"parallel"`
	Fault    c20Fault `json:"fault"`
	// Prealloc: 0 - Experiment.Trials is nil (fresh experiment); 1 - the caller allocated exactly NumRuns entries; 2 - the experiment
	// object is reused after a longer run: Trials holds NumRuns+2 stale entries
	Prealloc int `json:"prealloc,omitempty"`
}

var c20CaseCache = map[string][]c20Case{}

func c20Enumerate(tier string) []c20Case {
	if cs, ok := c20CaseCache[tier]; ok {
		return cs
	}
	maxR, maxG := 3, 4
	if tier == "thorough" {
		maxR, maxG = 4, 4
	}
	var cases []c20Case
	for R := 1; R <= maxR; R++ {
		for G := 1; G <= maxG; G++ {
			// every solved pattern
			total := 1
			for i := 0; i < R; i++ {
				total *= G + 1
			}
			for p := 0; p < total; p++ {
				solved := make([]int, R)
				x := p
				for i := 0; i < R; i++ {
					solved[i] = x%(G+1) - 1
					x /= G + 1
				}
				for _, obs := range []bool{true, false} {
					for _, par := range []bool{false, true} {
						cases = append(cases, c20Case{Runs: R, Gens: G, SolvedAt: solved, Observer: obs, Parallel: par, Fault: c20Fault{Kind: "none"}})
					}
					// the experiment object as the caller may hand it over: Trials pre-allocated, or left from an earlier longer run
					cases = append(cases, c20Case{Runs: R, Gens: G, SolvedAt: solved, Observer: obs, Fault: c20Fault{Kind: "none"}, Prealloc: 1})
					cases = append(cases, c20Case{Runs: R, Gens: G, SolvedAt: solved, Observer: obs, Fault: c20Fault{Kind: "none"}, Prealloc: 2})
				}
				// every fault position
				for r := 0; r < R; r++ {
					last := G - 1
					if solved[r] >= 0 {
						last = solved[r]
					}
					for g := 0; g <= last; g++ {
						for _, par := range []bool{false, true} {
							for _, obs := range []bool{true, false} {
								cases = append(cases, c20Case{Runs: R, Gens: G, SolvedAt: solved, Observer: obs, Parallel: par, Fault: c20Fault{"eval_error", r, g}})
								if !par {
									// the evaluator fails with an error of its own that looks like a context error (its private deadline
									// expired) while the context of the run is alive
									cases = append(cases, c20Case{Runs: R, Gens: G, SolvedAt: solved, Observer: obs, Fault: c20Fault{"eval_error_deadline", r, g}})
								}
								cases = append(cases, c20Case{Runs: R, Gens: G, SolvedAt: solved, Observer: obs, Parallel: par, Fault: c20Fault{"cancel_in_eval", r, g}})
								if g != solved[r] {
									cases = append(cases, c20Case{Runs: R, Gens: G, SolvedAt: solved, Observer: obs, Parallel: par, Fault: c20Fault{"cancel_mid_epoch", r, g}})
								} else {
									cases = append(cases, c20Case{Runs: R, Gens: G, SolvedAt: solved, Observer: obs, Parallel: par, Fault: c20Fault{"eval_error_solved", r, g}})
								}
							}
							cases = append(cases, c20Case{Runs: R, Gens: G, SolvedAt: solved, Observer: true, Parallel: par, Fault: c20Fault{"cancel_in_epoch_evaluated", r, g}})
						}
					}
					for _, par := range []bool{false, true} {
						cases = append(cases, c20Case{Runs: R, Gens: G, SolvedAt: solved, Observer: true, Parallel: par, Fault: c20Fault{"cancel_in_trial_started", r, 0}})
						cases = append(cases, c20Case{Runs: R, Gens: G, SolvedAt: solved, Observer: true, Parallel: par, Fault: c20Fault{"cancel_in_trial_finished", r, 0}})
					}
				}
			}
		}
	}
	// no generations at all (num_generations = 0): the configured number of trials is still executed - spawned, started, finished
	// and recorded - each without a single evaluation
	for R := 1; R <= maxR; R++ {
		solved := make([]int, R)
		for i := range solved {
			solved[i] = -1
		}
		for _, obs := range []bool{true, false} {
			for _, par := range []bool{false, true} {
				for pre := 0; pre <= 2; pre++ {
					cases = append(cases, c20Case{Runs: R, Gens: 0, SolvedAt: solved, Observer: obs, Parallel: par, Fault: c20Fault{Kind: "none"}, Prealloc: pre})
				}
			}
		}
		for r := 0; r < R; r++ {
			cases = append(cases, c20Case{Runs: R, Gens: 0, SolvedAt: solved, Observer: true, Fault: c20Fault{"cancel_in_trial_started", r, 0}})
			cases = append(cases, c20Case{Runs: R, Gens: 0, SolvedAt: solved, Observer: true, Fault: c20Fault{"cancel_in_trial_finished", r, 0}})
		}
	}
	// no trials at all (num_runs = 0): nothing is spawned, evaluated, reported or recorded, and nothing fails
	for G := 0; G <= 2; G++ {
		for _, obs := range []bool{true, false} {
			for _, par := range []bool{false, true} {
				cases = append(cases, c20Case{Runs: 0, Gens: G, SolvedAt: []int{}, Observer: obs, Parallel: par, Fault: c20Fault{Kind: "none"}})
			}
		}
	}
	// long runs beyond the enumerated bounds: 5-40 trials of up to 5-35 generations, PRNG-chosen solved patterns (a fixed list, the
	// same at every seed), fault-free and with one fault at a PRNG-chosen position
	nLong := 48
	if tier == "thorough" {
		nLong = 400
	}
	lr := rand.New(rand.NewSource(2020))
	for i := 0; i < nLong; i++ {
		R, G := 5+lr.Intn(36), 5+lr.Intn(31)
		solved := make([]int, R)
		for k := range solved {
			solved[k] = -1
			if lr.Intn(3) != 0 {
				solved[k] = lr.Intn(G)
			}
		}
		cs := c20Case{Runs: R, Gens: G, SolvedAt: solved, Observer: lr.Intn(4) != 0, Parallel: lr.Intn(4) == 0, Fault: c20Fault{Kind: "none"}, Long: true}
		if i%2 == 1 {
			r := lr.Intn(R)
			last := G - 1
			if solved[r] >= 0 {
				last = solved[r]
			}
			g := lr.Intn(last + 1)
			kinds := []string{"eval_error", "cancel_in_eval", "eval_error_deadline"}
			if g != solved[r] {
				kinds = append(kinds, "cancel_mid_epoch")
			} else {
				kinds = append(kinds, "eval_error_solved")
			}
			if cs.Observer {
				kinds = append(kinds, "cancel_in_epoch_evaluated", "cancel_in_trial_started", "cancel_in_trial_finished")
			}
			cs.Fault = c20Fault{kinds[lr.Intn(len(kinds))], r, g}
			if cs.Fault.Kind == "eval_error_deadline" {
				cs.Parallel = false
			}
			if cs.Fault.Kind == "cancel_in_trial_started" || cs.Fault.Kind == "cancel_in_trial_finished" {
				cs.Fault.G = 0
			}
		}
		cases = append(cases, cs)
	}
	// the shipped experiment runner (the executable of the repository root) with and without the -trials override
	nRunner := 6
	if tier == "thorough" {
		nRunner = 24
	}
	for i := 0; i < nRunner; i++ {
		cases = append(cases, c20Case{Runs: 2 + i%3, Gens: 2 + i%2, Fault: c20Fault{Kind: "runner", R: []int{0, 1, 2, 4}[i%4], G: i}})
	}
	// the runner interrupted by a signal in the middle of a long run: the cancelled context must stop it
	for i := 0; i < 1+nRunner/12; i++ {
		cases = append(cases, c20Case{Runs: 100000, Gens: 30, Fault: c20Fault{Kind: "runner_interrupted", G: i}})
	}
	c20CaseCache[tier] = cases
	return cases
}

// c20Runner runs the experiment runner program of the repository (built by run.sh from the tree under check): options
// file with num_runs = cs.Runs, -trials = cs.Fault.R (0: no override); the experiment it saves must hold exactly the
// configured number of trials, each with 1..num_generations generations in order
func c20Runner(c *Ctx, cs c20Case) {
	bin := os.Getenv("VERIFMON_RUNNER")
	if bin == "" {
		c.Inconclusive("the experiment runner binary was not built (VERIFMON_RUNNER is not set)")
		return
	}
	dir, err := os.MkdirTemp(workDir("C20"), "runner")
	if err != nil {
		panic("harness: " + err.Error())
	}
	defer os.RemoveAll(dir)
	optsText, err := os.ReadFile(filepath.Join(repoRoot(), "data", "xor_test.neat.yml"))
	if err != nil {
		panic("harness: " + err.Error())
	}
	set := func(text, key, val string) string {
		re := regexp.MustCompile(`(?m)^` + key + `:.*$`)
		if !re.MatchString(text) {
			panic("harness: option " + key + " not found in the shipped options file")
		}
		return re.ReplaceAllString(text, key+": "+val)
	}
	text := string(optsText)
	text = set(text, "num_runs", fmt.Sprint(cs.Runs))
	text = set(text, "num_generations", fmt.Sprint(cs.Gens))
	text = set(text, "pop_size", "30")
	optsPath := filepath.Join(dir, "options.neat.yml")
	if err = os.WriteFile(optsPath, []byte(text), 0o644); err != nil {
		panic("harness: " + err.Error())
	}
	out := filepath.Join(dir, "out")
	args := []string{"-out", out, "-context", optsPath, "-genome", filepath.Join(repoRoot(), "data", "xorstartgenes"), "-experiment", "XOR",
		"-seed", fmt.Sprint(1000 + cs.Fault.G), "-log_level", "error"}
	want := cs.Runs
	if cs.Fault.R > 0 {
		args = append(args, "-trials", fmt.Sprint(cs.Fault.R))
		want = cs.Fault.R
	}
	ctx, cancel := context.WithTimeout(context.Background(), 5*time.Minute)
	defer cancel()
	cmd := exec.CommandContext(ctx, bin, args...)
	cmd.Dir = dir
	output, runErr := cmd.CombinedOutput()
	c.Count("runner.executions", 1)
	detail := map[string]interface{}{"case": cs, "args": args, "key": "runner", "output_tail": tailString(string(output), 1500)}
	if ctx.Err() != nil {
		c.Inconclusive("the experiment runner did not finish within 5 minutes")
		return
	}
	if runErr != nil {
		c.Violate("runner-failed", detail, "the experiment runner failed with num_runs %d, -trials %d: %v", cs.Runs, cs.Fault.R, runErr)
		return
	}
	f, err := os.Open(filepath.Join(out, "XOR.dat"))
	if err != nil {
		c.Violate("runner-failed", detail, "the experiment runner saved no experiment: %v", err)
		return
	}
	defer f.Close()
	var exp experiment.Experiment
	if err = exp.Read(f); err != nil {
		c.Violate("runner-failed", detail, "the experiment saved by the runner can not be read: %v", err)
		return
	}
	if len(exp.Trials) != want {
		c.Violate("trials-recorded", detail, "the runner was configured for %d trials (num_runs %d, -trials %d) and recorded %d", want, cs.Runs, cs.Fault.R, len(exp.Trials))
		return
	}
	for r, tr := range exp.Trials {
		if tr.Id != r || len(tr.Generations) < 1 || len(tr.Generations) > cs.Gens {
			c.Violate("trials-recorded", detail, "trial #%d recorded by the runner has id %d and %d generations (num_generations %d)", r, tr.Id, len(tr.Generations), cs.Gens)
			return
		}
		for g, gen := range tr.Generations {
			if gen.Id != g || gen.TrialId != r || (gen.Solved && g != len(tr.Generations)-1) {
				c.Violate("trials-recorded", detail, "trial %d generation #%d recorded by the runner as (id %d, trial %d, solved %v)", r, g, gen.Id, gen.TrialId, gen.Solved)
				return
			}
		}
	}
	h := newHasher()
	h.i(-7)
	h.i(cs.Fault.G)
	c.Distinct(h.sum())
}

func tailString(s string, n int) string {
	if len(s) <= n {
		return s
	}
	return s[len(s)-n:]
}

func init() {
	register(&Prop{
		ID: "C20", Level: "fault_enumeration", DesignRef: "DESIGN.md section 4 C20",
		Rule: "enumerated: NumRuns 1..3 x NumGenerations 1..4 (quick) / 1..4 x 1..4 (thorough) x every solved pattern (per trial: solved at " +
			"generation g or never) x {observer, nil} x {sequential, parallel}, and on top of every pattern every single fault: evaluator " +
			"error at every evaluated (trial, generation) - also together with the solved flag in the generation that is reported solved -, cancellation from inside the evaluator at every (trial, generation), from each " +
			"observer callback (TrialRunStarted, EpochEvaluated, TrialRunFinished) and in the middle of the epoch that follows an " +
			"evaluation (ReproduceStart hook). The recorded call log of the instrumented evaluator / observer is checked by a trace " +
			"checker of the protocol. evaluations = Execute runs. The experiment runner program of the repository is executed with and without its -trials override and the experiment it saves is read back. Fault-free patterns are also run on an Experiment whose Trials are pre-allocated and on one reused after a longer run. A case is non-trivial if it has >= 2 trials or a fault; all cases are distinct.",
		Assumptions: []string{"population size 6..12, XOR start genome; the evaluator assigns fitness and fills the generation statistics as the shipped evaluators do", "beyond the enumerated bounds a fixed PRNG-drawn list of 48 (quick) / 400 (thorough) runs of 5-40 trials x 5-35 generations, every other one with one fault", "the observer is the evaluator itself, a second object, a stateless value or a value with a field; half of the observers ask the running experiment for a progress report in their callbacks"},
		Cases:       func(tier string) int { return len(c20Enumerate(tier)) },
		Run:         runC20,
		Exhaustive:  true,
		Required: []string{"cases.none", "cases.eval_error", "cases.cancel_in_eval", "cases.cancel_in_epoch_evaluated", "cases.cancel_in_trial_started",
			"cases.cancel_in_trial_finished", "cases.cancel_mid_epoch", "cases.parallel", "cases.no_observer", "cases.runner", "runner.stopped_after_interrupt", "cases.eval_error_solved", "cases.eval_error_deadline", "cases.long_runs_of_5_to_40_trials", "cases.trials_preallocated", "cases.experiment_reused_after_longer_run", "observer.is_the_evaluator", "observer.second_object", "observer.stateless_value", "observer.value_with_field", "evaluator.value_typed", "cases.observer_asks_the_running_experiment_for_reports", "trials.solved", "trials.unsolved", "canceled.returned", "cases.zero_generations", "cases.zero_trials"},
	})
}

type c20Event struct {
	Kind string // start | eval | epoch | finish
	R, G int
}

func (e c20Event) String() string {
	if e.Kind == "start" || e.Kind == "finish" {
		return fmt.Sprintf("%s(%d)", e.Kind, e.R)
	}
	return fmt.Sprintf("%s(%d,%d)", e.Kind, e.R, e.G)
}

var errC20Boom = errors.New("evaluator failed on purpose")

type c20Recorder struct {
	mu        sync.Mutex
	cs        *c20Case
	cancel    context.CancelFunc
	log       []c20Event
	cancelAt  int // index in the log after which the context was cancelled (-1 - never)
	pops      map[int]*genetics.Population
	orgsAt    map[[2]int]map[*genetics.Organism]bool
	problems  []string
	armMid    bool
	lastEval  [2]int
	finishLen map[int]int
	// exp, when set, is the running experiment: the observer callbacks ask it for a progress report
	exp     *experiment.Experiment
	reports int
}

func (rec *c20Recorder) add(ev c20Event) {
	rec.log = append(rec.log, ev)
}

func (rec *c20Recorder) doCancel() {
	if rec.cancelAt < 0 {
		rec.cancelAt = len(rec.log) - 1
	}
	rec.cancel()
}

func (rec *c20Recorder) GenerationEvaluate(ctx context.Context, pop *genetics.Population, epoch *experiment.Generation) error {
	rec.mu.Lock()
	defer rec.mu.Unlock()
	r, g := epoch.TrialId, epoch.Id
	rec.add(c20Event{"eval", r, g})
	if r < 0 || r >= rec.cs.Runs {
		// more trials than configured: the trace check reports it; nothing below may index by this trial
		rec.problems = append(rec.problems, fmt.Sprintf("trial %d is evaluated although only %d runs are configured", r, rec.cs.Runs))
		return nil
	}
	rec.lastEval = [2]int{r, g}
	set := map[*genetics.Organism]bool{}
	for _, o := range pop.Organisms {
		set[o] = true
	}
	if g == 0 {
		// a freshly spawned, unevaluated population
		for rr, p := range rec.pops {
			if p == pop && rr != r {
				rec.problems = append(rec.problems, fmt.Sprintf("trial %d is evaluated on the population object of trial %d", r, rr))
			}
		}
		for _, o := range pop.Organisms {
			if o.Fitness != 0 || o.IsWinner {
				rec.problems = append(rec.problems, fmt.Sprintf("trial %d starts with an already evaluated organism (fitness %v)", r, o.Fitness))
				break
			}
		}
		rec.pops[r] = pop
	} else {
		if rec.pops[r] != pop {
			rec.problems = append(rec.problems, fmt.Sprintf("generation %d of trial %d is evaluated on another population object than generation 0", g, r))
		}
		if prev, ok := rec.orgsAt[[2]int{r, g - 1}]; ok {
			for o := range set {
				if prev[o] {
					rec.problems = append(rec.problems, fmt.Sprintf("organisms were not turned over between generations %d and %d of trial %d", g-1, g, r))
					break
				}
			}
		}
	}
	rec.orgsAt[[2]int{r, g}] = set
	if len(pop.Organisms) != rec.cs.popSize() {
		rec.problems = append(rec.problems, fmt.Sprintf("population of trial %d generation %d has %d organisms", r, g, len(pop.Organisms)))
	}
	f := rec.cs.Fault
	if f.Kind == "eval_error" && f.R == r && f.G == g {
		return errC20Boom
	}
	if f.Kind == "eval_error_deadline" && f.R == r && f.G == g {
		return fmt.Errorf("evaluation of organism 3 timed out: %w", context.DeadlineExceeded)
	}
	for i, o := range pop.Organisms {
		o.Fitness = float64(i + 1)
	}
	if rec.cs.SolvedAt[r] == g {
		epoch.Solved = true
		best := pop.Organisms[len(pop.Organisms)-1]
		best.IsWinner = true
		epoch.Champion = best
		epoch.WinnerNodes = len(best.Genotype.Nodes)
		epoch.WinnerGenes = best.Genotype.Extrons()
		epoch.WinnerEvals = (g + 1) * len(pop.Organisms)
	}
	epoch.FillPopulationStatistics(pop)
	if f.Kind == "eval_error_solved" && f.R == r && f.G == g {
		// the winner was found, but the evaluator fails afterwards (e.g. while storing its results)
		return errC20Boom
	}
	if f.Kind == "cancel_in_eval" && f.R == r && f.G == g {
		rec.doCancel()
	}
	if f.Kind == "cancel_mid_epoch" && f.R == r && f.G == g {
		rec.armMid = true
	}
	return nil
}

func (rec *c20Recorder) TrialRunStarted(t *experiment.Trial) {
	rec.mu.Lock()
	defer rec.mu.Unlock()
	rec.report()
	rec.add(c20Event{"start", t.Id, 0})
	if f := rec.cs.Fault; f.Kind == "cancel_in_trial_started" && f.R == t.Id {
		rec.doCancel()
	}
}

// report asks the running experiment what a progress report asks (read-only questions): asking must not change what is recorded
func (rec *c20Recorder) report() {
	if e := rec.exp; e != nil {
		_ = e.MostRecentTrialEvalTime()
		_, _, _ = e.AvgTrialDuration(), e.AvgEpochDuration(), e.AvgGenerationsPerTrial()
		_, _, _ = e.TrialsSolved(), e.SuccessRate(), e.Solved()
		_, _, _, _ = e.BestFitness(), e.BestSpeciesAge(), e.AvgDiversity(), e.EpochsPerTrial()
		_, _, _ = e.BestOrganism(false)
		_, _, _, _ = e.AvgWinnerStatistics()
		rec.reports++
	}
}

func (rec *c20Recorder) TrialRunFinished(t *experiment.Trial) {
	rec.mu.Lock()
	defer rec.mu.Unlock()
	rec.report()
	rec.add(c20Event{"finish", t.Id, 0})
	rec.finishLen[t.Id] = len(t.Generations)
	if f := rec.cs.Fault; f.Kind == "cancel_in_trial_finished" && f.R == t.Id {
		rec.doCancel()
	}
}

func (rec *c20Recorder) EpochEvaluated(t *experiment.Trial, g *experiment.Generation) {
	rec.mu.Lock()
	defer rec.mu.Unlock()
	rec.add(c20Event{"epoch", t.Id, g.Id})
	if f := rec.cs.Fault; f.Kind == "cancel_in_epoch_evaluated" && f.R == t.Id && f.G == g.Id {
		rec.doCancel()
	}
}

// observers and evaluators of other dynamic types than the recorder itself; all of them report to a recorder
type c20PointerObserver struct{ rec *c20Recorder }

func (o *c20PointerObserver) TrialRunStarted(t *experiment.Trial)  { o.rec.TrialRunStarted(t) }
func (o *c20PointerObserver) TrialRunFinished(t *experiment.Trial) { o.rec.TrialRunFinished(t) }
func (o *c20PointerObserver) EpochEvaluated(t *experiment.Trial, g *experiment.Generation) {
	o.rec.EpochEvaluated(t, g)
}

type c20ValueObserver struct{ rec *c20Recorder }

func (o c20ValueObserver) TrialRunStarted(t *experiment.Trial)  { o.rec.TrialRunStarted(t) }
func (o c20ValueObserver) TrialRunFinished(t *experiment.Trial) { o.rec.TrialRunFinished(t) }
func (o c20ValueObserver) EpochEvaluated(t *experiment.Trial, g *experiment.Generation) {
	o.rec.EpochEvaluated(t, g)
}

// c20Current is the recorder of the running case, for the observer type that has no state of its own
var c20Current *c20Recorder

type c20StatelessObserver struct{}

func (c20StatelessObserver) TrialRunStarted(t *experiment.Trial)  { c20Current.TrialRunStarted(t) }
func (c20StatelessObserver) TrialRunFinished(t *experiment.Trial) { c20Current.TrialRunFinished(t) }
func (c20StatelessObserver) EpochEvaluated(t *experiment.Trial, g *experiment.Generation) {
	c20Current.EpochEvaluated(t, g)
}

type c20ValueEvaluator struct{ rec *c20Recorder }

func (e c20ValueEvaluator) GenerationEvaluate(ctx context.Context, pop *genetics.Population, epoch *experiment.Generation) error {
	return e.rec.GenerationEvaluate(ctx, pop, epoch)
}

func (cs *c20Case) popSize() int {
	return 6 + (cs.Runs*7+cs.Gens*3+len(cs.SolvedAt))%7
}

// specTrace returns the trace of the fault-free run as seen by the observer and the evaluator
func (cs *c20Case) specTrace() []c20Event {
	var tr []c20Event
	for r := 0; r < cs.Runs; r++ {
		tr = append(tr, c20Event{"start", r, 0})
		for g := 0; g < cs.Gens; g++ {
			tr = append(tr, c20Event{"eval", r, g})
			tr = append(tr, c20Event{"epoch", r, g})
			if cs.SolvedAt[r] == g {
				break
			}
		}
		tr = append(tr, c20Event{"finish", r, 0})
	}
	return tr
}

func runC20(c *Ctx, idx int) {
	defer func() { genetics.VerifHooks = genetics.VerifHookSet{} }()
	cases := c20Enumerate(c.Tier)
	cs := cases[idx]
	c.Eval(1)
	c.Count("cases."+cs.Fault.Kind, 1)
	if cs.Fault.Kind == "runner" {
		c20Runner(c, cs)
		return
	}
	if cs.Fault.Kind == "runner_interrupted" {
		c20RunnerInterrupted(c, cs)
		return
	}
	if cs.Parallel {
		c.Count("cases.parallel", 1)
	}
	if cs.Long {
		c.Count("cases.long_runs_of_5_to_40_trials", 1)
	}
	if !cs.Observer {
		c.Count("cases.no_observer", 1)
	}
	if cs.Runs == 0 {
		c.Count("cases.zero_trials", 1)
	} else if cs.Gens == 0 {
		c.Count("cases.zero_generations", 1)
	}
	start, err := loadShippedGenome("xorstartgenes")
	if err != nil {
		panic("harness: " + err.Error())
	}
	o := baseOpts()
	o.PopSize = cs.popSize()
	o.NumRuns = cs.Runs
	o.NumGenerations = cs.Gens
	o.CompatThreshold = 1.0
	o.MutateAddNodeProb = 0.2
	o.MutateAddLinkProb = 0.3
	if cs.Parallel {
		o.EpochExecutorType = neat.EpochExecutorTypeParallel
	}
	ctx, cancel := context.WithCancel(context.Background())
	defer cancel()
	rec := &c20Recorder{cs: &cs, cancel: cancel, cancelAt: -1, pops: map[int]*genetics.Population{}, orgsAt: map[[2]int]map[*genetics.Organism]bool{}, finishLen: map[int]int{}}
	genetics.VerifHooks.ReproduceStart = func(s *genetics.Species, p *genetics.Population, generation int) {
		rec.mu.Lock()
		defer rec.mu.Unlock()
		if rec.armMid {
			rec.armMid = false
			rec.doCancel()
		}
	}
	exp := experiment.Experiment{Id: idx}
	staleId := 1000
	switch cs.Prealloc {
	case 1:
		exp.Trials = make(experiment.Trials, cs.Runs)
		c.Count("cases.trials_preallocated", 1)
	case 2:
		exp.Trials = make(experiment.Trials, cs.Runs+2)
		for i := range exp.Trials {
			// what an earlier run left behind: every trial holds generations (one of them solved) and a cached winner
			exp.Trials[i] = experiment.Trial{Id: staleId + i, Generations: experiment.Generations{
				{Id: 0, TrialId: staleId + i}, {Id: 1, TrialId: staleId + i, Solved: true, WinnerNodes: 5, WinnerGenes: 7, WinnerEvals: 11, Diversity: 2}}}
			_, _, _, _ = exp.Trials[i].WinnerStatistics()
		}
		c.Count("cases.experiment_reused_after_longer_run", 1)
	}
	// the observer comes in the forms Go allows an interface value to take: the evaluator object itself, a second object behind a
	// pointer, a value of a type without any state (its zero value - it reports to the recorder of the running case) and a value
	// type with a field; the evaluator is the recorder or a value that wraps it
	var observer experiment.TrialRunObserver
	var evaluator experiment.GenerationEvaluator = rec
	form := int((uint32(idx)*2654435761)>>13) % 8 // (an enumeration index mixed, so that the forms spread over all patterns)
	if cs.Observer {
		switch form % 4 {
		case 0:
			observer = rec
		case 1:
			observer = &c20PointerObserver{rec: rec}
		case 2:
			c20Current = rec
			defer func() { c20Current = nil }()
			observer = c20StatelessObserver{}
		case 3:
			observer = c20ValueObserver{rec: rec}
		}
		c.Count([]string{"observer.is_the_evaluator", "observer.second_object", "observer.stateless_value", "observer.value_with_field"}[form%4], 1)
	}
	if form/4 == 1 {
		evaluator = c20ValueEvaluator{rec: rec}
		c.Count("evaluator.value_typed", 1)
	}
	if form%2 == 1 && cs.Prealloc != 2 {
		// (not on the experiment with stale entries: those are shells without champions, no record a report could be made of)
		rec.exp = &exp
	}
	startBefore := snapGenome(start)
	runErr := exp.Execute(neat.NewContext(ctx, o), start, evaluator, observer)
	if rec.reports > 0 {
		c.Count("cases.observer_asks_the_running_experiment_for_reports", 1)
	}
	if d := diffGenomes(startBefore, snapGenome(start)); d != "" {
		c.Violate("start-genome-modified", map[string]interface{}{"case": cs}, "Execute modified the start genome every trial is spawned from: %s", d)
		return
	}

	detail := func() map[string]interface{} {
		logStr := make([]string, len(rec.log))
		for i, e := range rec.log {
			logStr[i] = e.String()
		}
		return map[string]interface{}{"case": cs, "trace": logStr, "cancelled_after_event": rec.cancelAt, "returned": fmt.Sprint(runErr), "key": cs.Fault.Kind}
	}
	fail := func(kind, format string, args ...interface{}) {
		c.Violate(kind, detail(), format, args...)
	}
	if len(rec.problems) > 0 {
		fail("population-protocol", "%s", rec.problems[0])
		return
	}
	// the expected trace
	spec := cs.specTrace()
	var want []c20Event
	for _, e := range spec {
		if !cs.Observer && e.Kind != "eval" {
			continue
		}
		want = append(want, e)
	}
	got := rec.log
	f := cs.Fault
	switch f.Kind {
	case "none":
		if runErr != nil {
			fail("unexpected-error", "fault-free run returned %v", runErr)
			return
		}
		if !tracesEqual(got, want) {
			fail("trace", "observed call sequence %v differs from the protocol %v", got, want)
			return
		}
	case "eval_error_deadline":
		if !errors.Is(runErr, context.DeadlineExceeded) {
			fail("error-not-returned", "the evaluator's own deadline error at (%d,%d) was not returned to the caller: %v", f.R, f.G, runErr)
			return
		}
		cut := -1
		for i, e := range want {
			if e.Kind == "eval" && e.R == f.R && e.G == f.G {
				cut = i
			}
		}
		if cut < 0 || !tracesEqual(got, want[:cut+1]) {
			fail("trace", "after the evaluator error at (%d,%d) the call sequence is %v, expected %v", f.R, f.G, got, want[:cut+1])
			return
		}
	case "eval_error", "eval_error_solved":
		if runErr != errC20Boom && !errors.Is(runErr, errC20Boom) {
			fail("error-not-returned", "evaluator error at (%d,%d) was not returned to the caller: %v", f.R, f.G, runErr)
			return
		}
		// the trace stops right at the failing evaluation
		cut := -1
		for i, e := range want {
			if e.Kind == "eval" && e.R == f.R && e.G == f.G {
				cut = i
			}
		}
		if cut < 0 || !tracesEqual(got, want[:cut+1]) {
			fail("trace", "after the evaluator error at (%d,%d) the call sequence is %v, expected %v", f.R, f.G, got, want[:cut+1])
			return
		}
	default:
		// cancellation
		if rec.cancelAt < 0 {
			panic(fmt.Sprintf("harness: the cancellation point of %+v was never reached", cs))
		}
		if !isPrefix(got, want) {
			fail("trace", "call sequence %v of the cancelled run is not a prefix of the protocol %v", got, want)
			return
		}
		for i := rec.cancelAt + 1; i < len(got); i++ {
			if got[i].Kind == "eval" {
				fail("eval-after-cancel", "%s started after the context was cancelled (event #%d)", got[i], rec.cancelAt)
				return
			}
		}
		// was another generation due after the cancellation point?
		due := false
		for i := rec.cancelAt + 1; i < len(want); i++ {
			if want[i].Kind == "eval" {
				due = true
			}
		}
		if f.Kind == "cancel_mid_epoch" {
			due = true // the turnover itself was interrupted
		}
		if due {
			if !errors.Is(runErr, context.Canceled) {
				fail("cancel-not-returned", "the run was cancelled while further generations were due but Execute returned %v", runErr)
				return
			}
			c.Count("canceled.returned", 1)
		} else if runErr != nil && !errors.Is(runErr, context.Canceled) {
			fail("unexpected-error", "cancelled run returned %v", runErr)
			return
		}
	}
	// recorded trials: every completed trial holds exactly its evaluated generations in order
	completed := 0
	if cs.Observer {
		for _, e := range got {
			if e.Kind == "finish" {
				completed++
			}
		}
	} else if runErr == nil {
		completed = cs.Runs
	} else {
		// without an observer: trials before the one in which the run stopped
		if len(got) > 0 {
			completed = got[len(got)-1].R
		}
	}
	if runErr == nil && len(exp.Trials) != cs.Runs && cs.Prealloc != 2 {
		fail("trials-recorded", "%d trials recorded for %d runs", len(exp.Trials), cs.Runs)
		return
	}
	if cs.Prealloc == 2 {
		// the entries beyond the configured number of trials are none of this run's business
		if len(exp.Trials) != cs.Runs+2 || exp.Trials[cs.Runs].Id != staleId+cs.Runs || exp.Trials[cs.Runs+1].Id != staleId+cs.Runs+1 {
			fail("trials-recorded", "a run of %d trials touched the entries of Experiment.Trials beyond them", cs.Runs)
			return
		}
	}
	for r := 0; r < completed && r < len(exp.Trials); r++ {
		evaluated := 0
		for _, e := range got {
			if e.Kind == "eval" && e.R == r {
				evaluated++
			}
		}
		tr := exp.Trials[r]
		if tr.Id != r || len(tr.Generations) != evaluated {
			fail("trials-recorded", "trial %d is recorded with id %d and %d generations, %d were evaluated", r, tr.Id, len(tr.Generations), evaluated)
			return
		}
		for g, gen := range tr.Generations {
			if gen.Id != g || gen.TrialId != r || gen.Solved != (cs.SolvedAt[r] == g) {
				fail("trials-recorded", "trial %d generation #%d is recorded as (id %d, trial %d, solved %v)", r, g, gen.Id, gen.TrialId, gen.Solved)
				return
			}
			if gen.Champion == nil {
				fail("trials-recorded", "trial %d generation %d has no champion recorded", r, g)
				return
			}
		}
		if wantSolved := cs.SolvedAt[r] >= 0 && cs.SolvedAt[r] < cs.Gens; tr.Solved() != wantSolved {
			fail("trials-recorded", "trial %d reports Solved() = %v, the evaluator solved it: %v", r, tr.Solved(), wantSolved)
			return
		}
		if cs.Observer {
			if n, ok := rec.finishLen[r]; ok && n != evaluated {
				fail("finish-before-last-generation", "TrialRunFinished(%d) saw %d generations, %d were evaluated", r, n, evaluated)
				return
			}
		}
		if cs.SolvedAt[r] >= 0 && cs.SolvedAt[r] < cs.Gens {
			c.Count("trials.solved", 1)
			// the solved population was not turned over
			pop := rec.pops[r]
			set := rec.orgsAt[[2]int{r, cs.SolvedAt[r]}]
			if pop != nil && set != nil {
				same := len(pop.Organisms) == len(set)
				for _, org := range pop.Organisms {
					same = same && set[org]
				}
				if !same {
					fail("turnover-after-solved", "the population of trial %d was turned over after generation %d was reported solved", r, cs.SolvedAt[r])
					return
				}
			}
		} else {
			c.Count("trials.unsolved", 1)
		}
	}
	h := newHasher()
	h.i(idx)
	if cs.Runs >= 2 || f.Kind != "none" {
		c.Distinct(h.sum())
	}
	if c.WantSample() && f.Kind != "none" && cs.Runs >= 2 {
		c.Sample(detail())
	}
}

func tracesEqual(a, b []c20Event) bool {
	return len(a) == len(b) && isPrefix(a, b)
}

func isPrefix(a, b []c20Event) bool {
	if len(a) > len(b) {
		return false
	}
	for i := range a {
		if a[i] != b[i] {
			return false
		}
	}
	return true
}

// c20RunnerInterrupted starts the runner on a run that would take hours (100000 trials), interrupts it and expects it to
// stop: a run that goes on is told apart from one that stops by the number of further trials it starts, not by a tight
// deadline (the verdict falls after the process had two minutes to end; a runner that ignores the interrupt is still
// working through its trials then)
func c20RunnerInterrupted(c *Ctx, cs c20Case) {
	bin := os.Getenv("VERIFMON_RUNNER")
	if bin == "" {
		c.Inconclusive("the experiment runner binary was not built (VERIFMON_RUNNER is not set)")
		return
	}
	dir, err := os.MkdirTemp(workDir("C20"), "runner-int")
	if err != nil {
		panic("harness: " + err.Error())
	}
	defer os.RemoveAll(dir)
	optsText, err := os.ReadFile(filepath.Join(repoRoot(), "data", "xor_test.neat.yml"))
	if err != nil {
		panic("harness: " + err.Error())
	}
	text := string(optsText)
	for k, v := range map[string]string{"num_runs": "100000", "num_generations": fmt.Sprint(cs.Gens), "pop_size": "100"} {
		re := regexp.MustCompile(`(?m)^` + k + `:.*$`)
		text = re.ReplaceAllString(text, k+": "+v)
	}
	optsPath := filepath.Join(dir, "options.neat.yml")
	_ = os.WriteFile(optsPath, []byte(text), 0o644)
	cmd := exec.Command(bin, "-out", filepath.Join(dir, "out"), "-context", optsPath, "-genome", filepath.Join(repoRoot(), "data", "xorstartgenes"),
		"-experiment", "XOR", "-seed", fmt.Sprint(77+cs.Fault.G), "-log_level", "error")
	cmd.Dir = dir
	var out strings.Builder
	cmd.Stdout, cmd.Stderr = &out, &out
	if err = cmd.Start(); err != nil {
		c.Inconclusive("the experiment runner could not be started: %v", err)
		return
	}
	done := make(chan error, 1)
	go func() { done <- cmd.Wait() }()
	time.Sleep(1500 * time.Millisecond)
	select {
	case <-done:
		c.Inconclusive("the experiment runner ended before it could be interrupted")
		return
	default:
	}
	_ = cmd.Process.Signal(syscall.SIGINT)
	c.Count("runner.interrupted", 1)
	select {
	case <-done:
		// it stopped; HEAD ends with "context canceled"
		c.Count("runner.stopped_after_interrupt", 1)
	case <-time.After(2 * time.Minute):
		_ = cmd.Process.Kill()
		<-done
		c.Violate("runner-ignores-cancellation", map[string]interface{}{"case": cs, "key": "runner", "output_tail": tailString(out.String(), 800)},
			"the experiment runner was interrupted (SIGINT cancels its context) in the middle of a run of 100000 trials and was still running two minutes later")
		return
	}
	h := newHasher()
	h.i(-8)
	h.i(cs.Fault.G)
	c.Distinct(h.sum())
}
