package main

import (
	"fmt"
	"math/rand"

	"github.com/yaricom/goNEAT/v4/neat/genetics"
	neatmath "github.com/yaricom/goNEAT/v4/neat/math"
	"github.com/yaricom/goNEAT/v4/neat/network"
	"gonum.org/v1/gonum/graph"
)

// C11 - a phenotype network expresses exactly the enabled part of its genome.

func init() {
	register(&Prop{
		ID: "C11", Level: "exploration", DesignRef: "DESIGN.md section 4 C11",
		Rule: "cases i%4 != 3: a family of evolved genomes (disabled, recurrent, self-loop genes) or the shipped modular genome with modules " +
			"switched on / off; each genome (<= 40 nodes) is expressed and the network compared with the multigraph expected from the " +
			"snapshot: per-node incoming / outgoing links, then every graph-view query (Node, From, To, Edge, WeightedEdge, Weight, " +
			"HasEdgeFromTo, HasEdgeBetween) over all ordered pairs of (node ids + control ids + 3 absent ids), and the counts; " +
			"cases i%4 == 3: 8-20 real epochs (both executors) with Phenotype() of every organism compared with its genome, and " +
			"UpdatePhenotype() after mutating the genotype. evaluations = graph-view queries + organisms checked. A genome is " +
			"non-trivial if it has a disabled gene and a hidden node or an enabled module; distinct by fingerprint.",
		Assumptions: []string{"genomes are well-formed; module inputs and outputs are disjoint; nil is tested with == nil on the returned interface as a gonum caller does"},
		Cases: func(tier string) int {
			if tier == "quick" {
				return 2560
			}
			return 32000
		},
		Run: runC11,
		Required: []string{"genomes", "genomes.modular", "genomes.with_disabled", "genomes.with_parallel_links", "organisms.sequential", "organisms.parallel",
			"organisms.struct_mutated_baby", "queries.absent_node", "organisms.update_phenotype"},
	})
}

type edgeKey struct{ u, v int64 }

type expectedGraph struct {
	nodes     map[int64]SnapNode // base nodes
	ctrl      map[int64]bool
	order     []int64
	inputs    []int64
	outputs   []int64
	adj       map[edgeKey][]SnapGene // enabled genes per ordered pair (parallel links possible: recurrent + non-recurrent)
	modAdj    map[edgeKey]bool
	links     int
	ctrlCount int
}

func expectGraph(s *SnapGenome) *expectedGraph {
	e := &expectedGraph{nodes: map[int64]SnapNode{}, ctrl: map[int64]bool{}, adj: map[edgeKey][]SnapGene{}, modAdj: map[edgeKey]bool{}}
	for _, n := range s.Nodes {
		e.nodes[int64(n.Id)] = n
		e.order = append(e.order, int64(n.Id))
		if n.Neuron == byte(network.InputNeuron) || n.Neuron == byte(network.BiasNeuron) {
			e.inputs = append(e.inputs, int64(n.Id))
		} else if n.Neuron == byte(network.OutputNeuron) {
			e.outputs = append(e.outputs, int64(n.Id))
		}
	}
	for _, g := range s.Genes {
		if g.En {
			k := edgeKey{int64(g.In), int64(g.Out)}
			e.adj[k] = append(e.adj[k], g)
			e.links++
		}
	}
	for _, m := range s.Modules {
		if !m.En {
			continue
		}
		e.ctrlCount++
		cid := int64(m.CtrlId)
		e.ctrl[cid] = true
		for _, in := range m.Ins {
			e.modAdj[edgeKey{int64(in), cid}] = true
			e.links++
		}
		for _, out := range m.Outs {
			e.modAdj[edgeKey{cid, int64(out)}] = true
			e.links++
		}
	}
	return e
}

func (e *expectedGraph) has(u, v int64) bool {
	return len(e.adj[edgeKey{u, v}]) > 0 || e.modAdj[edgeKey{u, v}]
}

func nodeIds(it graph.Nodes) map[int64]int {
	m := map[int64]int{}
	if it == nil {
		return m
	}
	for it.Next() {
		m[it.Node().ID()]++
	}
	return m
}

// checkNetwork compares the network with the structure expected from the genome snapshot. Returns kind, message.
func checkNetwork(c *Ctx, s *SnapGenome, net *network.Network, graphView bool) (string, string) {
	e := expectGraph(s)
	// nodes: one per genome node, same id, role, activation type, in genome order
	base := net.BaseNodes()
	if len(base) != len(s.Nodes) {
		return "node-count", fmt.Sprintf("network has %d base nodes, genome has %d", len(base), len(s.Nodes))
	}
	for i, nd := range base {
		sn := s.Nodes[i]
		if nd.Id != sn.Id || byte(nd.NeuronType) != sn.Neuron || byte(nd.ActivationType) != sn.Act {
			return "node-kind", fmt.Sprintf("network node #%d is (id %d, role %d, activation %d), genome node is (id %d, role %d, activation %d)",
				i, nd.Id, nd.NeuronType, nd.ActivationType, sn.Id, sn.Neuron, sn.Act)
		}
	}
	// outputs in genome order
	if len(net.Outputs) != len(e.outputs) {
		return "outputs", fmt.Sprintf("network has %d outputs, genome has %d", len(net.Outputs), len(e.outputs))
	}
	for i, nd := range net.Outputs {
		if int64(nd.Id) != e.outputs[i] {
			return "outputs", fmt.Sprintf("output #%d is node %d, genome order gives %d", i, nd.Id, e.outputs[i])
		}
	}
	// links: bijection with enabled genes through Incoming / Outgoing of every node
	type lk struct {
		u, v int
		rec  bool
		w    uint64
	}
	want := map[lk]int{}
	for _, g := range s.Genes {
		if g.En {
			want[lk{g.In, g.Out, g.Rec, g.W}]++
		}
	}
	gotIn, gotOut := map[lk]int{}, map[lk]int{}
	nIn, nOut := 0, 0
	for _, nd := range base {
		for _, l := range nd.Incoming {
			if l == nil || l.InNode == nil || l.OutNode == nil {
				return "link-broken", fmt.Sprintf("node %d has an incoming link with nil endpoint", nd.Id)
			}
			if l.OutNode != nd {
				return "link-endpoint", fmt.Sprintf("incoming link of node %d ends in node %d", nd.Id, l.OutNode.Id)
			}
			gotIn[lk{l.InNode.Id, l.OutNode.Id, l.IsRecurrent, fbits(l.ConnectionWeight)}]++
			nIn++
		}
		for _, l := range nd.Outgoing {
			if l == nil || l.InNode == nil || l.OutNode == nil {
				return "link-broken", fmt.Sprintf("node %d has an outgoing link with nil endpoint", nd.Id)
			}
			if l.InNode != nd {
				return "link-endpoint", fmt.Sprintf("outgoing link of node %d starts in node %d", nd.Id, l.InNode.Id)
			}
			gotOut[lk{l.InNode.Id, l.OutNode.Id, l.IsRecurrent, fbits(l.ConnectionWeight)}]++
			nOut++
		}
	}
	for k, n := range want {
		if gotIn[k] != n || gotOut[k] != n {
			return "link-missing", fmt.Sprintf("enabled gene %d->%d (recurrent=%v, weight %v) is expressed %d times as incoming and %d times as outgoing link, expected %d",
				k.u, k.v, k.rec, bitsf(k.w), gotIn[k], gotOut[k], n)
		}
	}
	for k, n := range gotIn {
		if want[k] != n {
			return "link-extra", fmt.Sprintf("network has link %d->%d (recurrent=%v, weight %v) which no enabled gene describes", k.u, k.v, k.rec, bitsf(k.w))
		}
	}
	if nIn != nOut {
		return "link-extra", fmt.Sprintf("%d incoming vs %d outgoing links", nIn, nOut)
	}
	// control nodes of enabled modules
	ctrl := net.ControlNodes()
	if len(ctrl) != e.ctrlCount {
		return "modules", fmt.Sprintf("network has %d control nodes, genome has %d enabled modules", len(ctrl), e.ctrlCount)
	}
	mi := 0
	for _, m := range s.Modules {
		if !m.En {
			continue
		}
		cn := ctrl[mi]
		mi++
		if cn.Id != m.CtrlId || byte(cn.ActivationType) != m.Act {
			return "modules", fmt.Sprintf("control node %d (activation %d) does not match module %d (activation %d)", cn.Id, cn.ActivationType, m.CtrlId, m.Act)
		}
		if len(cn.Incoming) != len(m.Ins) || len(cn.Outgoing) != len(m.Outs) {
			return "modules", fmt.Sprintf("control node %d has %d inputs and %d outputs, module lists %d and %d", cn.Id, len(cn.Incoming), len(cn.Outgoing), len(m.Ins), len(m.Outs))
		}
		for i, l := range cn.Incoming {
			if l.InNode == nil || l.InNode.Id != m.Ins[i] || l.OutNode != cn {
				return "modules", fmt.Sprintf("control node %d input #%d is wired wrongly", cn.Id, i)
			}
		}
		for i, l := range cn.Outgoing {
			if l.OutNode == nil || l.OutNode.Id != m.Outs[i] || l.InNode != cn {
				return "modules", fmt.Sprintf("control node %d output #%d is wired wrongly", cn.Id, i)
			}
		}
	}
	// counts
	wantNodes := len(s.Nodes) + e.ctrlCount
	if net.NodeCount() != wantNodes || net.LinkCount() != e.links || net.Complexity() != wantNodes+e.links {
		return "counts", fmt.Sprintf("NodeCount %d LinkCount %d Complexity %d, expected %d %d %d", net.NodeCount(), net.LinkCount(), net.Complexity(), wantNodes, e.links, wantNodes+e.links)
	}
	if len(net.AllNodes()) != wantNodes {
		return "counts", fmt.Sprintf("AllNodes has %d nodes, expected %d", len(net.AllNodes()), wantNodes)
	}
	if !graphView {
		return "", ""
	}
	// inputs in genome order: load 1,2,3.. and read the sensors back
	vec := make([]float64, len(e.inputs))
	for i := range vec {
		vec[i] = float64(i + 1)
	}
	if err := net.LoadSensors(vec); err != nil {
		return "inputs", "LoadSensors failed: " + err.Error()
	}
	k := 0
	for _, nd := range base {
		if nd.IsSensor() {
			if k >= len(vec) || nd.Activation != vec[k] || int64(nd.Id) != e.inputs[k] {
				return "inputs", fmt.Sprintf("sensor #%d (node %d) received %v: inputs are not in genome order", k, nd.Id, nd.Activation)
			}
			k++
		}
	}
	_, _ = net.Flush()
	// the graph view
	all := map[int64]bool{}
	list := []int64{}
	for _, id := range e.order {
		all[id] = true
		list = append(list, id)
	}
	for id := range e.ctrl {
		all[id] = true
		list = append(list, id)
	}
	nodesSeen := nodeIds(net.Nodes())
	if len(nodesSeen) != len(all) {
		return "graph/nodes", fmt.Sprintf("Nodes() yields %d distinct nodes, expected %d", len(nodesSeen), len(all))
	}
	for id := range all {
		if nodesSeen[id] != 1 {
			return "graph/nodes", fmt.Sprintf("Nodes() yields node %d %d times", id, nodesSeen[id])
		}
	}
	absent := []int64{9001, -5, 0}
	for i := range absent {
		for all[absent[i]] {
			absent[i] += 1000
		}
	}
	list = append(list, absent...)
	for _, u := range list {
		c.Eval(1)
		nu := net.Node(u)
		if all[u] {
			if nu == nil || nu.ID() != u {
				return "graph/node", fmt.Sprintf("Node(%d) does not return the node", u)
			}
		} else {
			c.Count("queries.absent_node", 1)
			if nu != nil {
				return "graph/node-absent", fmt.Sprintf("Node(%d) of an absent node is not nil (%T)", u, nu)
			}
		}
		// the answers are held before they are read (a caller walking two neighbourhoods at once does that): an answer must
		// not change when the next question is asked
		itFrom, itTo := net.From(u), net.To(u)
		_ = net.From(list[(len(list)+int(u))%len(list)])
		from, to := nodeIds(itFrom), nodeIds(itTo)
		for _, v := range list {
			c.Eval(1)
			has := e.has(u, v)
			hasRev := e.has(v, u)
			// for every other pair the undirected question comes before the directed ones
			if (int(u)+int(v))%2 == 0 {
				if got := net.HasEdgeBetween(u, v); got != (has || hasRev) {
					return "graph/has-edge-between", fmt.Sprintf("HasEdgeBetween(%d,%d) = %v, expected %v", u, v, got, has || hasRev)
				}
			}
			if got := net.HasEdgeFromTo(u, v); got != has {
				return "graph/has-edge", fmt.Sprintf("HasEdgeFromTo(%d,%d) = %v, expected %v", u, v, got, has)
			}
			ed := net.Edge(u, v)
			wed := net.WeightedEdge(u, v)
			if (ed != nil) != has || (wed != nil) != has {
				if !has {
					return "graph/edge-absent", fmt.Sprintf("Edge(%d,%d) / WeightedEdge of an absent edge is not nil (%v, %v)", u, v, ed != nil, wed != nil)
				}
				return "graph/edge", fmt.Sprintf("Edge(%d,%d) is nil although the edge exists", u, v)
			}
			w, ok := net.Weight(u, v)
			if ok != has {
				return "graph/weight", fmt.Sprintf("Weight(%d,%d) ok = %v, expected %v", u, v, ok, has)
			}
			if has {
				if ed.From().ID() != u || ed.To().ID() != v {
					return "graph/edge-endpoints", fmt.Sprintf("Edge(%d,%d) joins %d -> %d", u, v, ed.From().ID(), ed.To().ID())
				}
				if genes := e.adj[edgeKey{u, v}]; len(genes) > 0 {
					found := false
					for _, g := range genes {
						if g.W == fbits(w) && g.W == fbits(wed.Weight()) {
							found = true
						}
					}
					if !found {
						return "graph/weight", fmt.Sprintf("Weight(%d,%d) = %v is not the weight of an enabled gene joining the pair", u, v, w)
					}
				}
			}
			if got := net.HasEdgeBetween(u, v); got != (has || hasRev) {
				return "graph/has-edge-between", fmt.Sprintf("HasEdgeBetween(%d,%d) = %v, expected %v", u, v, got, has || hasRev)
			}
			if (from[v] > 0) != has {
				return "graph/from", fmt.Sprintf("From(%d) contains %d: %v, expected %v", u, v, from[v] > 0, has)
			}
			if (to[v] > 0) != hasRev {
				return "graph/to", fmt.Sprintf("To(%d) contains %d: %v, expected %v", u, v, to[v] > 0, hasRev)
			}
		}
		for v := range from {
			if !all[v] {
				return "graph/from", fmt.Sprintf("From(%d) yields unknown node %d", u, v)
			}
		}
	}
	// the directed questions once more, in the opposite order of pairs, after every kind of question has been asked about every
	// pair: the answers are the same the second time
	for i := len(list) - 1; i >= 0; i-- {
		for j := len(list) - 1; j >= 0; j-- {
			u, v := list[i], list[j]
			has := e.has(u, v)
			c.Eval(1)
			_, ok := net.Weight(u, v)
			if got := net.HasEdgeFromTo(u, v); got != has || ok != has || (net.Edge(u, v) != nil) != has || (net.WeightedEdge(u, v) != nil) != has {
				return "graph/second-answer", fmt.Sprintf("asked again after the other questions, HasEdgeFromTo(%d,%d) = %v, Weight ok = %v, Edge present = %v, expected %v", u, v, got, ok, net.Edge(u, v) != nil, has)
			}
		}
	}
	return "", ""
}

func runC11(c *Ctx, idx int) {
	if idx%4 == 3 {
		c11Epochs(c, idx)
		return
	}
	r := c.G
	o := genOpts(r)
	o.MutateToggleEnableProb = 0.3 + r.Float64()*0.5
	o.RecurOnlyProb = pick(r, 0.0, 0.3, 0.6)
	var pool []*genetics.Genome
	if idx%4 == 2 {
		g, err := loadShippedGenome(modularGenomeFile)
		if err != nil {
			panic("harness: " + err.Error())
		}
		for k := 0; k < 12; k++ {
			s := snapGenome(g)
			modularVariants(r, s)
			if r.Intn(3) == 0 {
				// the modular genome after a run of add-node mutations: 18-24 further hidden nodes whose ids lie above the control
				// node ids, more than 32 nodes in all
				next := 0
				for _, m := range s.Modules {
					if m.CtrlId > next {
						next = m.CtrlId
					}
				}
				innov := int64(0)
				for _, gn := range s.Genes {
					if gn.Innov > innov {
						innov = gn.Innov
					}
				}
				for _, m := range s.Modules {
					if m.Innov > innov {
						innov = m.Innov
					}
				}
				prev := 2
				for k := 0; k < 18+r.Intn(7); k++ {
					next++
					s.Nodes = append(s.Nodes, SnapNode{Id: next, Neuron: byte(network.HiddenNeuron), Act: byte(neatmath.SigmoidSteepenedActivation)})
					innov++
					s.Genes = append(s.Genes, SnapGene{In: prev, Out: next, Innov: innov, W: fbits(r.NormFloat64()), En: r.Intn(4) != 0})
					prev = next
				}
				innov++
				s.Genes = append(s.Genes, SnapGene{In: prev, Out: 6, Innov: innov, W: fbits(r.NormFloat64()), En: true})
				c.Count("genomes.modular_grown_beyond_32_nodes", 1)
			}
			for i := range s.Modules {
				s.Modules[i].En = r.Intn(3) != 0
			}
			for i := range s.Genes {
				s.Genes[i].En = r.Intn(4) != 0
				s.Genes[i].W = fbits(r.NormFloat64())
			}
			pool = append(pool, buildFromSnap(s))
		}
	} else {
		f := newFamily(r, o)
		f.grow(r, 80+r.Intn(200))
		pool = f.Members
		// hand-built genomes with self-loops and parallel (recurrent + plain) links
		for k := 0; k < 6; k++ {
			sp := genSpec(r)
			sp.RecurProb, sp.SelfLoopProb, sp.DisabledProb = 0.3, 0.2, 0.3
			pool = append(pool, buildGenome(r, sp, 100+k))
		}
	}
	for _, g := range pool {
		if c.Violated() {
			return
		}
		if len(g.Nodes) > 40 {
			continue
		}
		s := snapGenome(g)
		fresh := buildFromSnap(s)
		net, err := fresh.Genesis(1)
		detail := func() map[string]interface{} { return map[string]interface{}{"genome": s} }
		if err != nil {
			c.Violate("genesis-error", detail(), "Genesis failed on a well-formed genome: %v", err)
			return
		}
		c.Count("genomes", 1)
		if kind, msg := checkNetwork(c, s, net, true); kind != "" {
			c.Violate(kind, detail(), "%s", msg)
			return
		}
		if d := diffGenomes(s, snapGenome(fresh)); d != "" {
			c.Violate("genome-modified", detail(), "expressing the genome (and querying the network) modified the genome: %s", d)
			return
		}
		// a network handed out earlier stays what it was when the organism rebuilds its phenotype (somebody may still hold it)
		{
			held := buildFromSnap(s)
			org1, _ := genetics.NewOrganism(0, held, 1)
			oldNet, perr := org1.Phenotype()
			org2, _ := genetics.NewOrganism(0, held, 1)
			if perr == nil && oldNet != nil {
				if uerr := org1.UpdatePhenotype(); uerr != nil {
					c.Violate("update-phenotype-error", detail(), "UpdatePhenotype failed on an unchanged genome: %v", uerr)
					return
				}
				newNet, _ := org1.Phenotype()
				other, _ := org2.Phenotype()
				c.Count("organisms.network_held_across_update", 1)
				for name, nw := range map[string]*network.Network{"the network handed out before UpdatePhenotype": oldNet, "the rebuilt network": newNet,
					"the network of a second organism over the same genome": other} {
					if nw == nil {
						continue
					}
					if kind, msg := checkNetwork(c, s, nw, false); kind != "" {
						c.Violate("held/"+kind, detail(), "%s no longer expresses the (unchanged) genome: %s", name, msg)
						return
					}
				}
			}
		}
		// express the same genome object again after it was changed in place (same and another network id): the new
		// network describes the genome as it is now, not as it was when it was expressed first
		{
			if len(s.Modules) == 0 || r.Intn(2) == 0 {
				_, _ = fresh.VerifMutateToggleEnable(1 + r.Intn(3))
				_, _ = fresh.VerifMutateGeneReEnable()
				_, _ = fresh.VerifMutateLinkWeights(1.5, 1.0, false)
			}
			s2 := snapGenome(fresh)
			for _, id := range []int{1, 2} {
				net2, err2 := fresh.Genesis(id)
				if err2 != nil {
					c.Violate("genesis-error", map[string]interface{}{"genome": s2}, "Genesis failed when the genome was expressed again: %v", err2)
					return
				}
				c.Count("genomes.expressed_again_after_change", 1)
				if kind, msg := checkNetwork(c, s2, net2, false); kind != "" {
					c.Violate("again/"+kind, map[string]interface{}{"genome_when_first_expressed": s, "genome_now": s2, "network_id": id},
						"expressing the genome again (network id %d) after it was changed in place: %s", id, msg)
					return
				}
			}
		}
		if len(s.Modules) > 0 {
			c.Count("genomes.modular", 1)
		}
		if s.countDisabled() > 0 {
			c.Count("genomes.with_disabled", 1)
		}
		par := false
		seen := map[[2]int]bool{}
		for _, gn := range s.Genes {
			if gn.En {
				k := [2]int{gn.In, gn.Out}
				par = par || seen[k]
				seen[k] = true
			}
		}
		if par {
			c.Count("genomes.with_parallel_links", 1)
		}
		enabledModule := false
		for _, m := range s.Modules {
			enabledModule = enabledModule || m.En
		}
		if (s.countDisabled() > 0 && s.hasHidden()) || enabledModule {
			c.Distinct(s.fingerprint())
			if c.WantSample() {
				c.Sample(map[string]interface{}{"genome": s.brief(), "disabled": s.countDisabled(), "modules": len(s.Modules), "queries_over_ids": len(s.Nodes) + len(s.Modules) + 3})
			}
		}
	}
}

// c11Epochs compares Phenotype() of every organism with its genome in real epochs
func c11Epochs(c *Ctx, idx int) {
	sc := genScenario(c.G, true)
	sc.Parallel = idx%8 == 7
	sc.Epochs = 8 + c.G.Intn(13)
	sc.Opts.MutateAddLinkProb = 0.2 + c.G.Float64()*0.6
	sc.Opts.MutateAddNodeProb = 0.1 + c.G.Float64()*0.3
	sc.Opts.MutateToggleEnableProb = c.G.Float64() * 0.5
	if sc.Opts.PopSize > 60 {
		sc.Opts.PopSize = 60
		if sc.Opts.BabiesStolen > 30 {
			sc.Opts.BabiesStolen = 30
		}
	}
	runScenario(c, sc, &phenoMonitor{r: c.G})
}

type phenoMonitor struct {
	skipped bool
	r       *rand.Rand
}

func (m *phenoMonitor) checkAll(c *Ctx, sc *EvoScenario, gen int, pop *genetics.Population) bool {
	for i, org := range pop.Organisms {
		s := snapGenome(org.Genotype)
		if len(s.Nodes) > 40 {
			continue
		}
		c.Eval(1)
		net, err := org.Phenotype()
		detail := func() map[string]interface{} {
			return map[string]interface{}{"scenario": sc.brief(), "generation": gen, "genome": s, "organism": i, "struct_mutation_baby": org.VerifState().MutationStructBaby}
		}
		if err != nil {
			c.Violate("phenotype-error", detail(), "Phenotype() failed: %v", err)
			return false
		}
		if kind, msg := checkNetwork(c, s, net, false); kind != "" {
			c.Violate("organism/"+kind, detail(), "organism %d after epoch %d: Phenotype() does not express its genome: %s", i, gen, msg)
			return false
		}
		if sc.Parallel {
			c.Count("organisms.parallel", 1)
		} else {
			c.Count("organisms.sequential", 1)
		}
		if org.VerifState().MutationStructBaby {
			c.Count("organisms.struct_mutated_baby", 1)
		}
		if s.countDisabled() > 0 && s.hasHidden() {
			c.Distinct(s.fingerprint())
		}
	}
	return true
}

func (m *phenoMonitor) Constructed(c *Ctx, sc *EvoScenario, pop *genetics.Population) {
	for _, org := range pop.Organisms {
		if len(org.Genotype.Genes) == 0 {
			m.skipped = true
			return
		}
	}
	if !m.checkAll(c, sc, -1, pop) {
		m.skipped = true
	}
}

func (m *phenoMonitor) BeforeEpoch(c *Ctx, sc *EvoScenario, gen int, pop *genetics.Population) {}

func (m *phenoMonitor) AfterEpoch(c *Ctx, sc *EvoScenario, gen int, pop *genetics.Population, err error) bool {
	if m.skipped || err != nil || gen < 0 {
		return false
	}
	if !m.checkAll(c, sc, gen, pop) {
		return false
	}
	// mutate the genotype of a copy of an organism and rebuild its phenotype
	src := pop.Organisms[m.r.Intn(len(pop.Organisms))]
	g := independentCopy(src.Genotype, 9000)
	org, _ := genetics.NewOrganism(0, g, gen)
	if _, perr := org.Phenotype(); perr != nil {
		return true
	}
	_, _ = g.VerifMutateToggleEnable(2)
	_, _ = g.VerifMutateLinkWeights(1, 1, false)
	_, _ = g.VerifMutateGeneReEnable()
	if m.r.Intn(2) == 0 {
		_, _ = g.VerifMutateAddNode(pop, pop, sc.Opts)
	}
	pop.VerifClearInnovations()
	if uerr := org.UpdatePhenotype(); uerr != nil {
		c.Violate("update-phenotype-error", map[string]interface{}{"genome": snapGenome(g)}, "UpdatePhenotype failed: %v", uerr)
		return false
	}
	net, _ := org.Phenotype()
	s := snapGenome(g)
	c.Count("organisms.update_phenotype", 1)
	if kind, msg := checkNetwork(c, s, net, false); kind != "" {
		c.Violate("update/"+kind, map[string]interface{}{"genome": s}, "after UpdatePhenotype() the network does not express the mutated genome: %s", msg)
		return false
	}
	if gen == sc.Epochs-1 && c.WantSample() {
		c.Sample(map[string]interface{}{"kind": "organisms of real epochs", "scenario": sc.brief()})
	}
	return true
}
