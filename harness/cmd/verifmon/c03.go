package main

import (
	"fmt"
	"sync"
	"sync/atomic"
	"time"

	"github.com/yaricom/goNEAT/v4/neat/genetics"
)

// C03 - an innovation number denotes one connection for the life of a population.

func init() {
	register(&Prop{
		ID: "C03", Level: "exploration", DesignRef: "DESIGN.md section 4 C03",
		Rule: "one case = one scenario of 25-60 epochs with boosted structural mutation rates on small node sets, so that identical " +
			"innovations collide; a registry living as long as the population maps innovation number -> (source, target, recurrent) and " +
			"node id -> role over all organisms that ever lived; per generation the stored-innovation event log and the new genes / nodes " +
			"are checked for freshness, for reuse of numbers by identical innovations (sequential executor) and the record must be empty " +
			"after the epoch. evaluations = genes registered. An epoch is non-trivial if at least one structural innovation was stored " +
			"in it; distinct by the signature of its event log.",
		Assumptions: []string{"sequential-only clauses (identical innovation => identical number) are not asserted under the parallel executor",
			"the innovation record is observed through the InnovationStored hook and VerifState"},
		Cases: func(tier string) int {
			if tier == "quick" {
				return 384
			}
			return 7200
		},
		Run:      runC03,
		Required: []string{"epochs", "innovations.link", "innovations.node", "reuse.link", "reuse.node", "epochs.parallel", "scenarios.modular_start_genome", "epochs.aborted_by_cancellation_then_made_again"},
	})
}

func runC03(c *Ctx, idx int) {
	r := c.G
	sc := genScenario(r, true)
	// collide often: high structural rates, moderate population, few species
	sc.Opts.MutateAddNodeProb = 0.1 + r.Float64()*0.5
	sc.Opts.MutateAddLinkProb = 0.2 + r.Float64()*0.8
	sc.Opts.MutateOnlyProb = 0.3 + r.Float64()*0.7
	if sc.Opts.PopSize < 13 {
		sc.Opts.PopSize = pick(r, 13, 20, 33, 50)
	}
	if sc.Opts.BabiesStolen > sc.Opts.PopSize/2 {
		sc.Opts.BabiesStolen = sc.Opts.PopSize / 2
	}
	sc.Parallel = idx%4 == 3
	if idx%3 == 1 {
		// evolve -> Population.Write -> ReadPopulation -> evolve on: the reader initialises the counters from a heterogeneous population
		sc.RestoreAt = 3 + r.Intn(sc.Epochs-4)
	}
	if idx%8 == 5 {
		// a modular start genome (the shipped one; the control node ids of its two modules possibly swapped): spawned and evolved by the sequential executor; the ids of the control nodes are node ids as well
		g, err := loadShippedGenome(modularGenomeFile)
		if err != nil {
			panic("harness: " + err.Error())
		}
		ms := snapGenome(g)
		if r.Intn(2) == 0 {
			// the control node ids need not ascend with the modules' innovation numbers (which stay in order)
			ms.Modules[0].CtrlId = ms.Modules[1].CtrlId + 1 + r.Intn(3)
		}
		for i := range ms.Genes {
			ms.Genes[i].W = fbits(r.NormFloat64())
		}
		sc.Ctor, sc.Start, sc.StartSrc = ctorSpawn, buildFromSnap(ms), "file:"+modularGenomeFile+" (modular)"
		sc.Parallel = false
		sc.RestoreAt = 0
		// asexual reproduction only: the crossovers are not defined for modules (they pile up the control genes of both
		// parents, outside every property - C01 and C04 exclude modular genomes), mutation and duplication are
		sc.Opts.MutateOnlyProb = 1
		if sc.Epochs > 15 {
			sc.Epochs = 15
		}
		c.Count("scenarios.modular_start_genome", 1)
	}
	if idx%32 == 17 {
		// a large population in which every baby adds a link to a genome with a few hundred open node pairs: hundreds of
		// innovations are recorded within one generation and most later ones repeat an earlier one (sequential executor)
		sp := genSpec(r)
		sp.Inputs, sp.Hidden, sp.Outputs = 10+r.Intn(4), 3+r.Intn(3), 8+r.Intn(4)
		sp.GeneProb = 0.12
		sc.Ctor, sc.Start, sc.StartSrc = ctorSpawn, buildGenome(r, sp, 1), "built: many open node pairs"
		sc.Opts.PopSize = 500 + r.Intn(300)
		sc.Opts.BabiesStolen = 0
		sc.Opts.MutateOnlyProb = 1
		sc.Opts.MutateAddLinkProb = 1
		sc.Opts.MutateAddNodeProb = 0
		sc.Opts.NewLinkTries = 50
		sc.Opts.CompatThreshold = 1e6
		sc.Parallel = false
		sc.RestoreAt = 0
		sc.Epochs = 2
		c.Count("scenarios.hundreds_of_innovations_per_generation", 1)
	}
	if idx%4 == 2 && idx%32 != 17 && idx%8 != 5 {
		// a turnover that is cancelled while the species reproduce and made again: the numbers the aborted attempt issued are part
		// of the population's history (everything survives, so that the turnover can be made again)
		sc.Opts.SurvivalThresh = 1.0
		sc.AbortAt = 2 + r.Intn(sc.Epochs-3)
		if sc.RestoreAt == sc.AbortAt {
			sc.RestoreAt = 0
		}
		c.Count("scenarios.with_an_aborted_turnover", 1)
	}
	mon := &innovMonitor{links: map[int64]linkKey{}, roles: map[int]byte{}}
	runScenario(c, sc, mon)
}

type linkKey struct {
	in, out int
	rec     bool
}

type innovMonitor struct {
	skipped bool
	links   map[int64]linkKey // innovation number -> connection, over the whole history
	roles   map[int]byte      // node id -> role, over the whole history
	maxInn  int64             // maximum innovation number over all genes seen before the epoch
	maxNode int
	mu      sync.Mutex
	events  []genetics.Innovation
	// genes / nodes known before the epoch
	knownInn  map[int64]bool
	knownNode map[int]bool
}

func (m *innovMonitor) detail(sc *EvoScenario, gen int) map[string]interface{} {
	return map[string]interface{}{"scenario": sc.brief(), "generation": gen}
}

// register adds all genes and nodes of the population into the history registry
func (m *innovMonitor) register(c *Ctx, sc *EvoScenario, gen int, pop *genetics.Population) bool {
	for _, org := range pop.Organisms {
		for _, gn := range org.Genotype.Genes {
			c.Eval(1)
			k := linkKey{gn.Link.InNode.Id, gn.Link.OutNode.Id, gn.Link.IsRecurrent}
			if prev, ok := m.links[gn.InnovationNum]; ok && prev != k {
				d := m.detail(sc, gen)
				d["genome"] = genomeText(org.Genotype)
				c.Violate("innovation-two-links", d, "innovation number %d denotes %d->%d (recurrent=%v) and %d->%d (recurrent=%v)",
					gn.InnovationNum, prev.in, prev.out, prev.rec, k.in, k.out, k.rec)
				return false
			}
			m.links[gn.InnovationNum] = k
		}
		for _, n := range org.Genotype.Nodes {
			if prev, ok := m.roles[n.Id]; ok && prev != byte(n.NeuronType) {
				c.Violate("node-two-roles", m.detail(sc, gen), "node id %d denotes nodes of roles %d and %d", n.Id, prev, n.NeuronType)
				return false
			}
			m.roles[n.Id] = byte(n.NeuronType)
		}
		// the control node of a module is a node of a role of its own (200)
		for _, cg := range org.Genotype.ControlGenes {
			if cg.ControlNode == nil {
				continue
			}
			if prev, ok := m.roles[cg.ControlNode.Id]; ok && prev != 200 {
				c.Violate("node-two-roles", m.detail(sc, gen), "node id %d denotes the control node of a module and a node of role %d", cg.ControlNode.Id, prev)
				return false
			}
			m.roles[cg.ControlNode.Id] = 200
		}
	}
	return true
}

func (m *innovMonitor) Constructed(c *Ctx, sc *EvoScenario, pop *genetics.Population) {
	for _, org := range pop.Organisms {
		if len(org.Genotype.Genes) == 0 {
			m.skipped = true
			c.Count("scenarios.skipped_gene_less_random_genome", 1)
			return
		}
	}
	if sc.restoring {
		// a population restored from its written form is a new population: all it knows (and all its counters can be
		// initialised from) are the genomes stored, so its history starts with them. Numbers which only organisms that died
		// before the store carried may be issued again.
		m.links = map[int64]linkKey{}
		m.roles = map[int]byte{}
	}
	if sc.Ctor == ctorRandom {
		// randomly constructed genomes number their genes by the cell of the connection matrix: consistent by construction
		c.Count("populations.random", 1)
	}
	if !m.register(c, sc, -1, pop) {
		m.skipped = true
		return
	}
	genetics.VerifHooks.InnovationStored = func(p *genetics.Population, inn genetics.Innovation) {
		m.mu.Lock()
		m.events = append(m.events, inn)
		m.mu.Unlock()
	}
	if sc.Parallel {
		// widen the windows between a species' scan of the record, its draws from the two counters and its store
		var n uint64
		seed := uint64(c.G.Int63())
		genetics.VerifHooks.Yield = func(site string) {
			k := atomic.AddUint64(&n, 1)
			if d := splitmix(seed+k) % 64; d < 24 {
				time.Sleep(time.Duration(d) * 5 * time.Microsecond)
			}
		}
	}
}

func (m *innovMonitor) BeforeEpoch(c *Ctx, sc *EvoScenario, gen int, pop *genetics.Population) {
	if m.skipped {
		return
	}
	m.events = nil
	m.knownInn = map[int64]bool{}
	m.knownNode = map[int]bool{}
	m.maxInn, m.maxNode = 0, 0
	for _, org := range pop.Organisms {
		for _, gn := range org.Genotype.Genes {
			m.knownInn[gn.InnovationNum] = true
			if gn.InnovationNum > m.maxInn {
				m.maxInn = gn.InnovationNum
			}
		}
		for _, n := range org.Genotype.Nodes {
			m.knownNode[n.Id] = true
			if n.Id > m.maxNode {
				m.maxNode = n.Id
			}
		}
		for _, cg := range org.Genotype.ControlGenes {
			if cg.ControlNode != nil {
				m.knownNode[cg.ControlNode.Id] = true
				if cg.ControlNode.Id > m.maxNode {
					m.maxNode = cg.ControlNode.Id
				}
			}
			if cg.InnovationNum > m.maxInn {
				m.maxInn = cg.InnovationNum
			}
		}
	}
}

func (m *innovMonitor) AfterEpoch(c *Ctx, sc *EvoScenario, gen int, pop *genetics.Population, err error) bool {
	if m.skipped || err != nil || gen < 0 {
		return false
	}
	c.Count("epochs", 1)
	if sc.Parallel {
		c.Count("epochs.parallel", 1)
	}
	if !m.register(c, sc, gen, pop) {
		return false
	}
	st := pop.VerifState()
	if len(st.Innovations) != 0 {
		c.Violate("record-not-forgotten", m.detail(sc, gen), "%d innovations are still recorded after the generation ended", len(st.Innovations))
		return false
	}
	// freshness of issued numbers
	type nodeKey struct {
		in, out int
		old     int64
	}
	linkEv := map[linkKey]int{}
	nodeEv := map[nodeKey]int{}
	h := newHasher()
	for _, ev := range m.events {
		if ev.VerifIsNewNode() {
			c.Count("innovations.node", 1)
			if ev.InnovationNum <= m.maxInn || ev.InnovationNum2 <= m.maxInn || ev.NewNodeId <= m.maxNode {
				c.Violate("stale-number", m.detail(sc, gen), "node innovation issued numbers %d, %d and node id %d while the population already held %d / %d",
					ev.InnovationNum, ev.InnovationNum2, ev.NewNodeId, m.maxInn, m.maxNode)
				return false
			}
			nodeEv[nodeKey{ev.InNodeId, ev.OutNodeId, ev.OldInnovNum}]++
			h.i(1)
			h.i(ev.InNodeId)
			h.i(ev.OutNodeId)
		} else {
			c.Count("innovations.link", 1)
			if ev.InnovationNum <= m.maxInn {
				c.Violate("stale-number", m.detail(sc, gen), "link innovation issued number %d while the population already held %d", ev.InnovationNum, m.maxInn)
				return false
			}
			linkEv[linkKey{ev.InNodeId, ev.OutNodeId, ev.IsRecurrent}]++
			h.i(2)
			h.i(ev.InNodeId)
			h.i(ev.OutNodeId)
			h.b(ev.IsRecurrent)
		}
	}
	if len(m.events) > 0 {
		c.Count("epochs.with_innovations", 1)
		c.Distinct(h.sum())
	}
	// numbers first seen in the new generation must be larger than everything held before
	newLinks := map[linkKey]map[int64]bool{}
	type split struct {
		in, out int
	}
	newNodeBySplit := map[string]map[int]bool{}
	for _, org := range pop.Organisms {
		gnm := org.Genotype
		for _, gn := range gnm.Genes {
			if m.knownInn[gn.InnovationNum] {
				continue
			}
			if gn.InnovationNum <= m.maxInn {
				d := m.detail(sc, gen)
				d["genome"] = genomeText(gnm)
				c.Violate("stale-number", d, "gene first seen in this generation has innovation number %d, the population already held %d", gn.InnovationNum, m.maxInn)
				return false
			}
			k := linkKey{gn.Link.InNode.Id, gn.Link.OutNode.Id, gn.Link.IsRecurrent}
			if newLinks[k] == nil {
				newLinks[k] = map[int64]bool{}
			}
			newLinks[k][gn.InnovationNum] = true
		}
		for _, n := range gnm.Nodes {
			if m.knownNode[n.Id] {
				continue
			}
			if n.Id <= m.maxNode {
				c.Violate("stale-number", m.detail(sc, gen), "node first seen in this generation has id %d, the population already held %d", n.Id, m.maxNode)
				return false
			}
		}
	}
	if !sc.Parallel {
		// identical innovations of one generation share numbers: no two records with the same key
		for k, n := range linkEv {
			if n > 1 {
				c.Violate("same-link-two-numbers", m.detail(sc, gen), "link %d->%d (recurrent=%v) was recorded as novel %d times in one generation", k.in, k.out, k.rec, n)
				return false
			}
		}
		for k, n := range nodeEv {
			if n > 1 {
				c.Violate("same-split-two-numbers", m.detail(sc, gen), "split of gene %d (%d->%d) was recorded as novel %d times in one generation", k.old, k.in, k.out, n)
				return false
			}
		}
		// cross-check from the genomes themselves. A link created by add-link and the same link created as one half of a
		// node split are different innovations, so only genes whose endpoints both existed before are compared.
		for k, nums := range newLinks {
			if len(nums) > 1 && m.knownNode[k.in] && m.knownNode[k.out] {
				c.Violate("same-link-two-numbers", m.detail(sc, gen), "new link %d->%d (recurrent=%v) carries %d different innovation numbers in the new generation", k.in, k.out, k.rec, len(nums))
				return false
			}
		}
		// new hidden nodes which split the same gene carry the same id: a new node n with genes a->n and n->b where a->b gene
		// was known before. Count distinct ids per (a,b, innovation of the split gene).
		for _, org := range pop.Organisms {
			gnm := org.Genotype
			for _, n := range gnm.Nodes {
				if m.knownNode[n.Id] {
					continue
				}
				var in, out *genetics.Gene
				cnt := 0
				for _, gn := range gnm.Genes {
					if gn.Link.OutNode.Id == n.Id && gn.Link.InNode.Id != n.Id {
						in = gn
						cnt++
					}
					if gn.Link.InNode.Id == n.Id && gn.Link.OutNode.Id != n.Id {
						out = gn
						cnt++
					}
				}
				if cnt != 2 || in == nil || out == nil {
					continue
				}
				key := fmt.Sprintf("%d>%d/%d/%d", in.Link.InNode.Id, out.Link.OutNode.Id, in.InnovationNum, out.InnovationNum)
				_ = key
				sk := fmt.Sprintf("%d>%d", in.Link.InNode.Id, out.Link.OutNode.Id)
				// find the split gene: disabled gene a->b known before
				for _, gn := range gnm.Genes {
					// the first half of a split keeps the recurrence flag of the split gene, the second half is never recurrent
					if gn.Link.InNode.Id == in.Link.InNode.Id && gn.Link.OutNode.Id == out.Link.OutNode.Id && m.knownInn[gn.InnovationNum] &&
						!gn.IsEnabled && gn.Link.IsRecurrent == in.Link.IsRecurrent && !out.Link.IsRecurrent {
						sk2 := fmt.Sprintf("%s#%d", sk, gn.InnovationNum)
						if newNodeBySplit[sk2] == nil {
							newNodeBySplit[sk2] = map[int]bool{}
						}
						newNodeBySplit[sk2][n.Id] = true
					}
				}
			}
		}
		for sk, ids := range newNodeBySplit {
			if len(ids) > 1 {
				c.Violate("same-split-two-numbers", m.detail(sc, gen), "nodes splitting the same gene (%s) carry %d different ids in the new generation", sk, len(ids))
				return false
			}
		}
	}
	// reuse statistics: how many genes of the new generation share a number issued this generation
	issuedLink := map[int64]int{}
	issuedNode := map[int]int{}
	for _, org := range pop.Organisms {
		for _, gn := range org.Genotype.Genes {
			if !m.knownInn[gn.InnovationNum] {
				issuedLink[gn.InnovationNum]++
			}
		}
		for _, n := range org.Genotype.Nodes {
			if !m.knownNode[n.Id] {
				issuedNode[n.Id]++
			}
		}
	}
	for _, n := range issuedLink {
		if n > 1 {
			c.Count("reuse.link", n-1)
		}
	}
	for _, n := range issuedNode {
		if n > 1 {
			c.Count("reuse.node", n-1)
		}
	}
	if gen == sc.Epochs-1 && c.WantSample() {
		c.Sample(map[string]interface{}{"scenario": sc.brief(), "innovation_numbers_in_history": len(m.links), "node_ids_in_history": len(m.roles),
			"events_last_epoch": len(m.events)})
	}
	return true
}
