package main

import (
	"fmt"
	"math/rand"

	"github.com/yaricom/goNEAT/v4/neat/genetics"
	"github.com/yaricom/goNEAT/v4/neat/network"
)

// C05 - structural and parametric mutations change exactly what they document.

func init() {
	register(&Prop{
		ID: "C05", Level: "exploration", DesignRef: "DESIGN.md section 4 C05",
		Rule: "one case = one family grown by a random operator history; then 150 (quick) / 500 (thorough) monitored mutations: a member " +
			"is copied, a mutator is applied to the copy and the before/after snapshots are checked against the documented relation of " +
			"that mutator; the innovation record is empty, matching (the same mutation was just applied to a sibling) or non-matching. " +
			"evaluations = mutations applied. A mutation is non-trivial if it returned true and changed the snapshot; distinct by " +
			"(mutator, before fingerprint, after fingerprint).",
		Assumptions: []string{"genomes are well-formed non-modular family members", "a false result of add-node / add-link is not constrained by C05"},
		Cases: func(tier string) int {
			if tier == "quick" {
				return 3200
			}
			return 48000
		},
		Run: runC05,
		Required: []string{"add_node.true", "add_link.true", "connect_sensors.true", "toggle_enable.disabled", "re_enable.enabled",
			"add_node.record_hit", "add_link.record_hit", "link_weights.true", "toggle_enable.refused_last_enabled"},
	})
}

func runC05(c *Ctx, idx int) {
	r := c.G
	o := genOpts(r)
	o.RecurOnlyProb = pick(r, 0.0, 0.5, 1.0, r.Float64())
	var f *Family
	mostlyDisabled := false
	if idx%5 == 0 {
		// disconnected sensors so that connect-sensors has work to do
		g, err := loadShippedGenome("xordisconnectedstartgenes")
		if err != nil {
			panic("harness: " + err.Error())
		}
		f = newFamilyFrom(g, "file:xordisconnectedstartgenes", o)
	} else if idx%5 == 1 {
		sp := genSpec(r)
		sp.Inputs = 3 + r.Intn(2)
		sp.GeneProb = 0.1
		f = newFamilyFrom(buildGenome(r, sp, 1), "built-sparse", o)
	} else if idx%5 == 2 {
		// 15-40 genes of which most are disabled: the random search of add-node for an enabled gene often comes up empty
		sp := genSpec(r)
		sp.Inputs, sp.Hidden, sp.Outputs = 2+r.Intn(3), 3+r.Intn(3), 1+r.Intn(2)
		sp.GeneProb = 0.7
		sp.DisabledProb = pick(r, 0.8, 0.9, 0.95)
		f = newFamilyFrom(buildGenome(r, sp, 1), "built-mostly-disabled", o)
		mostlyDisabled = true
		c.Count("families.mostly_disabled", 1)
	} else if idx%10 == 8 {
		// the shipped modular genome (rewired): the mutators that leave the structure alone treat it like any other genome - the
		// guard of toggle-enable looks at connection genes, a link into a module is no substitute for one
		mg, err := loadShippedGenome(modularGenomeFile)
		if err != nil {
			panic("harness: " + err.Error())
		}
		ms := snapGenome(mg)
		modularVariants(r, ms)
		f = newFamilyFrom(buildFromSnap(ms), "file:"+modularGenomeFile+" (modular, rewired)", o)
		f.Ops = []opKind{opToggleEnable, opToggleEnable, opToggleEnable, opReEnable, opLinkWeights, opAllNonstructural}
		mostlyDisabled = true // (no growth by structural mutation and crossover)
		c.Count("families.modular", 1)
	} else {
		f = newFamily(r, o)
	}
	if !mostlyDisabled {
		f.grow(r, 30+r.Intn(150))
	}
	n := 150
	if c.Tier == "thorough" {
		n = 500
	}
	for i := 0; i < n && !c.Violated(); i++ {
		if i%25 == 24 && !mostlyDisabled {
			f.grow(r, 15)
		}
		c05Mutation(c, f, r)
	}
}

var c05Mutators = []opKind{opAddNode, opAddNode, opAddNode, opAddLink, opAddLink, opAddLink, opConnectSensors, opLinkWeights, opRandomTrait,
	opLinkTrait, opNodeTrait, opToggleEnable, opToggleEnable, opReEnable, opReEnable, opAllNonstructural}

func independentCopy(g *genetics.Genome, id int) *genetics.Genome {
	s := snapGenome(g)
	s.Id = id
	return buildFromSnap(s)
}

func c05Mutation(c *Ctx, f *Family, r *rand.Rand) {
	src := f.pickMember(r)
	g := independentCopy(src, f.newId())
	// a chain of 1-4 mutations applied in place to the same genome object (arbitrary operator histories): each step is
	// monitored on its own
	steps := 1
	if r.Intn(3) == 0 {
		steps = 2 + r.Intn(3)
		c.Count("chains.in_place", 1)
	}
	if len(f.Ops) == 0 && r.Intn(4) == 0 {
		// the genome object as a crossover of the library hands it over (what the reproduction of a species mutates), not a
		// copy of it, and a longer history on it
		op := opKind(int(opMateMultipoint) + r.Intn(3))
		if child, err := f.applyMate(op, src, f.pickMember(r), f.newId(), r.Float64(), r.Float64()); err == nil && child != nil && len(child.Genes) > 0 &&
			len(child.Nodes) <= 60 && snapGenome(child).Broken == "" {
			g = child
			steps = 2 + r.Intn(4)
			c.Count("chains.in_place_on_a_genome_fresh_from_a_crossover", 1)
		}
	}
	for k := 0; k < steps && !c.Violated(); k++ {
		if !c05Step(c, f, r, g, src) {
			return
		}
	}
	if len(g.Genes) > 0 {
		f.add(g, r)
	}
}

// c05Step applies one monitored mutation to g in place; src is the member g was copied from (siblings are copies of it)
func c05Step(c *Ctx, f *Family, r *rand.Rand, g, src *genetics.Genome) bool {
	op := c05Mutators[r.Intn(len(c05Mutators))]
	if len(f.Ops) > 0 {
		op = f.Ops[r.Intn(len(f.Ops))]
	}
	// record state: empty / matching / as left by the history
	mode := r.Intn(3)
	switch mode {
	case 0:
		f.Pop.VerifClearInnovations()
	case 1:
		// apply the same kind of mutation to a sibling first so that the record may match
		sib := independentCopy(g, f.newId())
		_, _ = f.applyMutation(op, sib, r)
	}
	recBefore := len(f.Pop.VerifState().Innovations)
	before := snapGenome(g)
	ok, err := f.applyMutation(op, g, r)
	c.Eval(1)
	after := snapGenome(g)
	recAfter := len(f.Pop.VerifState().Innovations)
	name := op.String()
	detail := func() map[string]interface{} {
		return map[string]interface{}{"mutator": name, "result": ok, "before": before, "after": after, "start": f.StartSrc, "record_before": recBefore, "record_after": recAfter}
	}
	if err != nil {
		c.Violate("mutator-error", detail(), "%s failed on a well-formed genome: %v", name, err)
		return false
	}
	if after.Broken != "" {
		c.Violate("genome-broken", detail(), "%s left a broken genome: %s", name, after.Broken)
		return false
	}
	if ok {
		c.Count(name+".true", 1)
	} else {
		c.Count(name+".false", 1)
	}
	kind, msg := c05Oracle(c, op, ok, before, after, recBefore, recAfter)
	if kind != "" {
		c.Violate(kind, detail(), "%s (result %v): %s", name, ok, msg)
		return false
	}
	if ok && before.fingerprint() != after.fingerprint() {
		h := newHasher()
		h.i(int(op))
		h.u64(before.fingerprint())
		h.u64(after.fingerprint())
		c.Distinct(h.sum())
		if c.WantSample() && (op == opAddNode || op == opAddLink) {
			c.Sample(map[string]interface{}{"mutator": name, "before": before.brief(), "after": after.brief()})
		}
	}
	return true
}

// structure compares what non-structural mutators must never change
func sameStructure(a, b *SnapGenome) string {
	if len(a.Nodes) != len(b.Nodes) {
		return fmt.Sprintf("node count changed %d -> %d", len(a.Nodes), len(b.Nodes))
	}
	for i := range a.Nodes {
		if a.Nodes[i].Id != b.Nodes[i].Id || a.Nodes[i].Neuron != b.Nodes[i].Neuron {
			return fmt.Sprintf("node #%d changed %+v -> %+v", i, a.Nodes[i], b.Nodes[i])
		}
	}
	if len(a.Genes) != len(b.Genes) {
		return fmt.Sprintf("gene count changed %d -> %d", len(a.Genes), len(b.Genes))
	}
	for i := range a.Genes {
		x, y := a.Genes[i], b.Genes[i]
		if x.In != y.In || x.Out != y.Out || x.Innov != y.Innov || x.Rec != y.Rec {
			return fmt.Sprintf("gene #%d changed %s -> %s", i, geneStr(x), geneStr(y))
		}
	}
	return ""
}

func traitsEqual(a, b *SnapGenome) bool {
	if len(a.Traits) != len(b.Traits) {
		return false
	}
	for i := range a.Traits {
		if a.Traits[i].Id != b.Traits[i].Id || !u64sEqual(a.Traits[i].Params, b.Traits[i].Params) {
			return false
		}
	}
	return true
}

// geneDelta aligns genes of before and after by innovation number
func geneDelta(before, after *SnapGenome) (added []SnapGene, removed []SnapGene, changed [][2]SnapGene) {
	bm := map[int64]SnapGene{}
	for _, g := range before.Genes {
		bm[g.Innov] = g
	}
	am := map[int64]bool{}
	for _, g := range after.Genes {
		am[g.Innov] = true
		if p, ok := bm[g.Innov]; !ok {
			added = append(added, g)
		} else if p != g {
			changed = append(changed, [2]SnapGene{p, g})
		}
	}
	for _, g := range before.Genes {
		if !am[g.Innov] {
			removed = append(removed, g)
		}
	}
	return
}

func nodesUnchanged(before, after *SnapGenome) bool {
	if len(before.Nodes) != len(after.Nodes) {
		return false
	}
	for i := range before.Nodes {
		if before.Nodes[i] != after.Nodes[i] {
			return false
		}
	}
	return true
}

func c05Oracle(c *Ctx, op opKind, ok bool, before, after *SnapGenome, recBefore, recAfter int) (string, string) {
	name := op.String()
	switch op {
	case opAddNode:
		if !ok {
			// not constrained (the gene chosen for the split may stay disabled); observed, not asserted
			if diffGenomes(before, after) != "" {
				c.Count("add_node.false_but_changed", 1)
			}
			return "", ""
		}
		if recAfter == recBefore {
			c.Count("add_node.record_hit", 1)
		}
		if !traitsEqual(before, after) {
			return "add-node/traits", "traits changed"
		}
		// nodes: exactly one new hidden node
		bn := map[int]SnapNode{}
		for _, n := range before.Nodes {
			bn[n.Id] = n
		}
		var newNodes []SnapNode
		for _, n := range after.Nodes {
			if p, found := bn[n.Id]; !found {
				newNodes = append(newNodes, n)
			} else if p != n {
				return "add-node/nodes", fmt.Sprintf("existing node %d changed", n.Id)
			}
		}
		if len(newNodes) != 1 || len(after.Nodes) != len(before.Nodes)+1 {
			return "add-node/nodes", fmt.Sprintf("expected exactly one new node, got %d (nodes %d -> %d)", len(newNodes), len(before.Nodes), len(after.Nodes))
		}
		nn := newNodes[0]
		if nn.Neuron != byte(network.HiddenNeuron) {
			return "add-node/nodes", fmt.Sprintf("new node %d is not hidden (role %d)", nn.Id, nn.Neuron)
		}
		added, removed, changed := geneDelta(before, after)
		if len(removed) != 0 {
			return "add-node/genes", fmt.Sprintf("%d genes disappeared", len(removed))
		}
		if len(changed) != 1 {
			return "add-node/genes", fmt.Sprintf("expected exactly one changed gene (the split one), got %d", len(changed))
		}
		old, now := changed[0][0], changed[0][1]
		if !old.En || now.En {
			return "add-node/split-gene", fmt.Sprintf("split gene must go enabled -> disabled: %s -> %s", geneStr(old), geneStr(now))
		}
		now.En = true
		if now != old {
			return "add-node/split-gene", fmt.Sprintf("split gene changed in more than its enabled flag: %s -> %s", geneStr(old), geneStr(changed[0][1]))
		}
		if len(added) != 2 {
			return "add-node/genes", fmt.Sprintf("expected exactly two new genes, got %d", len(added))
		}
		var inG, outG *SnapGene
		for i := range added {
			if added[i].Out == nn.Id && added[i].In == old.In {
				inG = &added[i]
			} else if added[i].In == nn.Id && added[i].Out == old.Out {
				outG = &added[i]
			}
		}
		if inG == nil || outG == nil || inG == outG {
			return "add-node/genes", fmt.Sprintf("new genes %s, %s do not route %d -> %d -> %d", geneStr(added[0]), geneStr(added[1]), old.In, nn.Id, old.Out)
		}
		if inG.W != fbits(1.0) {
			return "add-node/weights", fmt.Sprintf("gene into the new node has weight %v, expected 1", bitsf(inG.W))
		}
		if inG.Rec != old.Rec {
			return "add-node/recurrence", fmt.Sprintf("gene into the new node has recurrent=%v, the split gene had %v", inG.Rec, old.Rec)
		}
		if outG.W != old.W {
			return "add-node/weights", fmt.Sprintf("gene out of the new node has weight %v, the split gene had %v", bitsf(outG.W), bitsf(old.W))
		}
		if !inG.En || !outG.En {
			return "add-node/enabled", "new genes must be enabled"
		}
		if old.Rec {
			c.Count("add_node.split_recurrent_gene", 1)
		}
		return "", ""

	case opAddLink:
		if !ok {
			if diffGenomes(before, after) != "" {
				c.Count("add_link.false_but_changed", 1)
			}
			return "", ""
		}
		if recAfter == recBefore {
			c.Count("add_link.record_hit", 1)
		}
		if !traitsEqual(before, after) || !nodesUnchanged(before, after) {
			return "add-link/rest", "traits or nodes changed"
		}
		added, removed, changed := geneDelta(before, after)
		if len(removed) != 0 || len(changed) != 0 {
			return "add-link/rest", fmt.Sprintf("existing genes changed (%d removed, %d changed)", len(removed), len(changed))
		}
		if len(added) != 1 {
			return "add-link/genes", fmt.Sprintf("expected exactly one new gene, got %d", len(added))
		}
		g := added[0]
		roles := map[int]byte{}
		for _, n := range before.Nodes {
			roles[n.Id] = n.Neuron
		}
		ri, okIn := roles[g.In]
		ro, okOut := roles[g.Out]
		_ = ri
		if !okIn || !okOut {
			return "add-link/endpoints", fmt.Sprintf("new gene %s joins nodes which are not in the genome", geneStr(g))
		}
		if ro == byte(network.InputNeuron) || ro == byte(network.BiasNeuron) {
			return "add-link/into-sensor", fmt.Sprintf("new gene %s ends in a sensor", geneStr(g))
		}
		for _, p := range before.Genes {
			if p.In == g.In && p.Out == g.Out && p.Rec == g.Rec {
				return "add-link/duplicate", fmt.Sprintf("new gene %s duplicates existing link of gene %d", geneStr(g), p.Innov)
			}
		}
		if g.Rec {
			c.Count("add_link.recurrent", 1)
		}
		if g.In == g.Out {
			c.Count("add_link.self_loop", 1)
		}
		return "", ""

	case opConnectSensors:
		if !ok {
			if d := diffGenomes(before, after); d != "" {
				return "connect-sensors/false-changed", "returned false but changed the genome: " + d
			}
			return "", ""
		}
		if !traitsEqual(before, after) || !nodesUnchanged(before, after) {
			return "connect-sensors/rest", "traits or nodes changed"
		}
		added, removed, changed := geneDelta(before, after)
		if len(removed) != 0 || len(changed) != 0 {
			return "connect-sensors/rest", fmt.Sprintf("existing genes changed (%d removed, %d changed)", len(removed), len(changed))
		}
		if len(added) == 0 {
			return "connect-sensors/genes", "returned true but added nothing"
		}
		sensor := added[0].In
		roles := map[int]byte{}
		nonSensors := map[int]bool{}
		for _, n := range before.Nodes {
			roles[n.Id] = n.Neuron
			if n.Neuron != byte(network.InputNeuron) && n.Neuron != byte(network.BiasNeuron) {
				nonSensors[n.Id] = true
			}
		}
		if r := roles[sensor]; r != byte(network.InputNeuron) && r != byte(network.BiasNeuron) {
			return "connect-sensors/source", fmt.Sprintf("added genes leave node %d which is not a sensor", sensor)
		}
		for _, p := range before.Genes {
			if p.In == sensor {
				return "connect-sensors/source", fmt.Sprintf("sensor %d was already connected by gene %d", sensor, p.Innov)
			}
		}
		targets := map[int]bool{}
		for _, g := range added {
			if g.In != sensor {
				return "connect-sensors/source", "added genes leave more than one sensor"
			}
			if !nonSensors[g.Out] {
				return "connect-sensors/target", fmt.Sprintf("added gene %s ends in a sensor or unknown node", geneStr(g))
			}
			if targets[g.Out] {
				return "connect-sensors/target", fmt.Sprintf("two added genes end in node %d", g.Out)
			}
			targets[g.Out] = true
		}
		if len(targets) != len(nonSensors) {
			return "connect-sensors/target", fmt.Sprintf("sensor %d was connected to %d of %d non-sensor nodes", sensor, len(targets), len(nonSensors))
		}
		return "", ""
	}

	// non-structural mutators
	if d := sameStructure(before, after); d != "" {
		return name + "/structure", d
	}
	switch op {
	case opToggleEnable:
		// never disables the last enabled gene leaving a node
		enabledOut := func(s *SnapGenome) map[int]int {
			m := map[int]int{}
			for _, g := range s.Genes {
				if g.En {
					m[g.In]++
				}
			}
			return m
		}
		bo, ao := enabledOut(before), enabledOut(after)
		disabled := 0
		for i := range before.Genes {
			if before.Genes[i].En && !after.Genes[i].En {
				disabled++
				if ao[before.Genes[i].In] == 0 {
					return "toggle/last-enabled", fmt.Sprintf("gene %d was disabled although it was the last enabled gene leaving node %d", before.Genes[i].Innov, before.Genes[i].In)
				}
			}
		}
		c.Count("toggle_enable.disabled", disabled)
		if disabled == 0 {
			// was there a candidate which had to be refused?
			for _, g := range before.Genes {
				if g.En && bo[g.In] == 1 {
					c.Count("toggle_enable.refused_last_enabled", 1)
					break
				}
			}
		}
	case opReEnable:
		first := -1
		for i, g := range before.Genes {
			if !g.En {
				first = i
				break
			}
		}
		for i := range before.Genes {
			b, a := before.Genes[i], after.Genes[i]
			if i == first {
				if !a.En {
					return "re-enable/first", fmt.Sprintf("the first disabled gene %d was not enabled", b.Innov)
				}
				c.Count("re_enable.enabled", 1)
			} else if a.En != b.En {
				return "re-enable/other", fmt.Sprintf("gene %d changed its enabled flag %v -> %v, only the first disabled gene %d may change", b.Innov, b.En, a.En, firstInnov(before, first))
			}
		}
		if first < 0 {
			c.Count("re_enable.nothing_disabled", 1)
		}
	}
	return "", ""
}

func firstInnov(s *SnapGenome, i int) int64 {
	if i < 0 {
		return -1
	}
	return s.Genes[i].Innov
}
