package main

import (
	"fmt"
	"math/rand"

	"github.com/yaricom/goNEAT/v4/neat"
	"github.com/yaricom/goNEAT/v4/neat/genetics"
)

// C01 - every genetic operator and epoch yields only well-formed genomes.
//
// Cases with even index are operator histories over a family of genomes, cases with odd index are epoch histories.

func init() {
	register(&Prop{
		ID: "C01", Level: "exploration", DesignRef: "DESIGN.md section 4 C01",
		Rule: "even cases: operator history (duplicate / 10 mutators / 3 crossovers / end-of-generation) over a family descended from " +
			"one start genome (shipped file, hand-built, newGenomeRand), well-formedness checked on every result and on the " +
			"untouched inputs; odd cases: 25-60 epochs of a population built by NewPopulation / NewPopulationRandom / ReadPopulation " +
			"under sequential or parallel executor, every organism checked after every epoch. evaluations = genomes checked. " +
			"A genome is non-trivial if it has a hidden node and a disabled or recurrent gene; distinct by snapshot fingerprint.",
		Assumptions: []string{"start genomes satisfy the C01 preconditions (generator-built; shipped files)",
			"fitness finite, non-negative (one shape in eight: values near the top of the float64 range whose sum overflows)", "genomes above 60 nodes / 250 genes are retired from operator histories"},
		Cases: func(tier string) int {
			if tier == "quick" {
				return 960
			}
			return 14400
		},
		Run:      runC01,
		Required: []string{"op.add_node.ok", "op.add_link.ok", "op.mate_multipoint.ok", "op.mate_multipoint_avg.ok", "op.mate_singlepoint.ok", "epochs"},
	})
}

func runC01(c *Ctx, idx int) {
	if idx%2 == 0 {
		c01OperatorHistory(c)
	} else {
		sc := genScenario(c.G, true)
		runScenario(c, sc, &c01Monitor{})
	}
}

func c01Check(c *Ctx, g *genetics.Genome, io ioSet, where string, detail func() map[string]interface{}) bool {
	c.Eval(1)
	kind, msg := wf(g, io, true)
	if kind != "" {
		d := map[string]interface{}{"where": where}
		if detail != nil {
			for k, v := range detail() {
				d[k] = v
			}
		}
		if g != nil {
			d["genome"] = genomeText(g)
		}
		c.Violate("wf/"+kind, d, "%s: %s", where, msg)
		return false
	}
	s := snapGenome(g)
	if s.nontrivial() {
		c.Distinct(s.fingerprint())
	}
	if s.countDisabled() > 0 {
		c.Count("genomes.with_disabled", 1)
	}
	if s.countRecurrent() > 0 {
		c.Count("genomes.with_recurrent", 1)
	}
	if s.countSelfLoops() > 0 {
		c.Count("genomes.with_self_loop", 1)
	}
	return true
}

func c01OperatorHistory(c *Ctx) {
	r := c.G
	o := genOpts(r)
	var f *Family
	if c.Case%8 == 6 {
		// a family of unrelated randomly constructed genomes, numbered as NewPopulationRandom numbers them
		f = newRandomLineageFamily(r, o)
		c.Count("histories.random_lineages", 1)
	}
	dense := false
	if f == nil && c.Case%8 == 2 {
		// small node sets on which the same node pairs are hit again and again: long chains of add-link / toggle / re-enable
		// on one genome with the innovation record kept (the same link as a recurrent and as a plain one, re-invented after
		// a toggle, ...)
		sp := genSpec(r)
		sp.Inputs, sp.Outputs, sp.Hidden = 1+r.Intn(2), 1, 1+r.Intn(2)
		sp.GeneProb = 0.6
		o.RecurOnlyProb = pick(r, 0.3, 0.5, 0.7)
		o.NewLinkTries = 30
		f = newFamilyFrom(buildGenome(r, sp, 1), "built-small-dense", o)
		dense = true
		c.Count("histories.small_dense", 1)
	}
	if f == nil {
		f = newFamily(r, o)
	}
	steps := 150
	if c.Tier == "thorough" {
		steps = 600
	}
	start := f.Members[0]
	if !c01Check(c, start, f.IO, "start genome ("+f.StartSrc+")", nil) {
		// the start genome itself is ill-formed: harness generator or shipped file problem, not an operator fault
		c.violations = c.violations[:len(c.violations)-1]
		c.violCount--
		panic("harness: start genome is not well-formed: " + f.StartSrc)
	}
	var history []string
	record := func(s string) {
		history = append(history, s)
		if len(history) > 40 {
			history = history[1:]
		}
	}
	detail := func() map[string]interface{} {
		return map[string]interface{}{"start": f.StartSrc, "last_ops": history}
	}
	for step := 0; step < steps; step++ {
		op := randomOp(r)
		switch {
		case op == opEndGeneration:
			f.Pop.VerifClearInnovations()
			record("end_generation")
		case op == opDuplicate:
			src := f.pickMember(r)
			d, err := src.VerifDuplicate(f.newId())
			record("duplicate")
			if err != nil {
				c.Violate("op-error", detail(), "duplicate failed on well-formed genome: %v", err)
				return
			}
			c.Count("op.duplicate.ok", 1)
			if !c01Check(c, d, f.IO, "result of duplicate", detail) || !c01Check(c, src, f.IO, "source of duplicate", detail) {
				return
			}
			f.add(d, r)
		case op.isMate():
			a, b := f.pickMember(r), f.pickMember(r)
			fa, fb := r.Float64(), r.Float64()
			if r.Intn(4) == 0 {
				fb = fa
			}
			child, err := f.applyMate(op, a, b, f.newId(), fa, fb)
			record(fmt.Sprintf("%s(%d genes, %d genes, %.3f, %.3f)", op, len(a.Genes), len(b.Genes), fa, fb))
			if err != nil {
				c.Violate("op-error", detail(), "%s failed on well-formed parents: %v", op, err)
				return
			}
			c.Count("op."+op.String()+".ok", 1)
			if child != nil && len(child.Genes) == 0 {
				d := detail()
				sa, sb := snapGenome(a), snapGenome(b)
				d["parent1"], d["parent2"] = sa, sb
				if op == opMateSinglePoint && diagnoseGeneLessChild([]*SnapGenome{sa, sb}) != nil && !shareInnovation(sa, sb) {
					d["key"] = keyGeneLessChild
				}
				c.Eval(1)
				c.Violate("wf/genesis", d, "child of %s has no genes and can not be expressed as a network", op)
				return
			}
			if !c01Check(c, child, f.IO, "child of "+op.String(), detail) ||
				!c01Check(c, a, f.IO, "first parent of "+op.String(), detail) || !c01Check(c, b, f.IO, "second parent of "+op.String(), detail) {
				return
			}
			f.add(child, r)
		default:
			src := f.pickMember(r)
			d, err := src.VerifDuplicate(f.newId())
			if err != nil {
				c.Violate("op-error", detail(), "duplicate failed on well-formed genome: %v", err)
				return
			}
			// sometimes a chain of mutators works on the same genome object, the innovation record kept (add-link, toggle,
			// add-link ... on one genome within one generation)
			chain := 1
			if r.Intn(3) == 0 || dense {
				chain = 2 + r.Intn(7)
				if dense {
					chain = 6 + r.Intn(10)
				}
				c.Count("histories.in_place_chains", 1)
			}
			for k := 0; k < chain; k++ {
				if dense {
					op = pick(r, opAddLink, opAddLink, opAddLink, opToggleEnable, opToggleEnable, opReEnable)
				} else if k > 0 {
					op = pick(r, opAddLink, opAddLink, opAddLink, opToggleEnable, opToggleEnable, opToggleEnable, opReEnable, opAddNode, opConnectSensors, opLinkWeights)
				}
				ok, err := f.applyMutation(op, d, r)
				record(fmt.Sprintf("%s->%v", op, ok))
				if err != nil {
					c.Violate("op-error", detail(), "%s failed on well-formed genome: %v", op, err)
					return
				}
				if ok {
					c.Count("op."+op.String()+".ok", 1)
				} else {
					c.Count("op."+op.String()+".false", 1)
				}
				if !c01Check(c, d, f.IO, "result of "+op.String(), detail) {
					return
				}
			}
			f.add(d, r)
		}
	}
	if c.WantSample() {
		c.Sample(map[string]interface{}{"kind": "operator history", "start": f.StartSrc, "steps": steps, "last_ops": history[len(history)-min(8, len(history)):],
			"a_member": snapGenome(f.Members[len(f.Members)-1]).brief()})
	}
}

type c01Monitor struct {
	io      map[int]ioSet // per-lineage io sets are merged: all organisms of a spawned population share the start genome's
	shared  ioSet
	skipped bool
}

func (m *c01Monitor) Constructed(c *Ctx, sc *EvoScenario, pop *genetics.Population) {
	if sc.Ctor != ctorRandom {
		m.shared = ioNodesOf(snapGenome(sc.Start))
	} else {
		// randomly constructed organisms have the same io layout by construction: take it from the first one
		m.shared = ioNodesOf(snapGenome(pop.Organisms[0].Genotype))
	}
	for _, org := range pop.Organisms {
		if len(org.Genotype.Genes) == 0 {
			// outside the quantifier: start genomes have at least one connection gene
			m.skipped = true
			c.Count("scenarios.skipped_gene_less_random_genome", 1)
			return
		}
	}
	for i, org := range pop.Organisms {
		if !c01Check(c, org.Genotype, m.shared, fmt.Sprintf("organism %d of %s", i, ctorNames[sc.Ctor]), func() map[string]interface{} {
			return map[string]interface{}{"scenario": sc.brief()}
		}) {
			m.skipped = true
			return
		}
	}
	c.Count("populations."+ctorNames[sc.Ctor], 1)
}

func (m *c01Monitor) BeforeEpoch(c *Ctx, sc *EvoScenario, gen int, pop *genetics.Population) {}

func (m *c01Monitor) AfterEpoch(c *Ctx, sc *EvoScenario, gen int, pop *genetics.Population, err error) bool {
	if m.skipped {
		return false
	}
	if err != nil {
		// epoch failure is C02's matter unless it is caused by an inexpressible genome
		c.Count("epochs.error", 1)
		return false
	}
	c.Count("epochs", 1)
	if sc.Parallel {
		c.Count("epochs.parallel", 1)
	}
	for i, org := range pop.Organisms {
		if !c01Check(c, org.Genotype, m.shared, fmt.Sprintf("organism %d after epoch %d", i, gen), func() map[string]interface{} {
			return map[string]interface{}{"scenario": sc.brief(), "generation": gen}
		}) {
			return false
		}
	}
	if gen == sc.Epochs-1 && c.WantSample() {
		c.Sample(map[string]interface{}{"kind": "epoch history", "scenario": sc.brief(), "species_at_end": len(pop.Species),
			"an_organism": snapGenome(pop.Organisms[0].Genotype).brief()})
	}
	return true
}

func min(a, b int) int {
	if a < b {
		return a
	}
	return b
}

func shareInnovation(a, b *SnapGenome) bool {
	m := map[int64]bool{}
	for _, g := range a.Genes {
		m[g.Innov] = true
	}
	for _, g := range b.Genes {
		if m[g.Innov] {
			return true
		}
	}
	return false
}

// newRandomLineageFamily builds a family of unrelated genomes the way NewPopulationRandom does
func newRandomLineageFamily(r *rand.Rand, o *neat.Options) *Family {
	in, out, maxHidden := 2+r.Intn(3), 1+r.Intn(2), 1+r.Intn(5)
	recur := r.Intn(2) == 0
	linkProb := pick(r, 0.3, 0.5, 0.8, 1.0)
	var members []*genetics.Genome
	for i := 0; i < 6+r.Intn(8); i++ {
		g, err := genetics.VerifNewGenomeRand(i, in, out, r.Intn(maxHidden), maxHidden, recur, linkProb, o)
		if err != nil || len(g.Genes) == 0 {
			continue
		}
		if kind, _ := wf(g, nil, false); kind != "" {
			panic("harness: newGenomeRand produced an ill-formed genome")
		}
		members = append(members, g)
	}
	if len(members) < 2 {
		return nil
	}
	total := in + out + maxHidden
	f := &Family{Opts: o, StartSrc: fmt.Sprintf("random-lineages(in=%d out=%d hidden<%d recur=%v p=%.1f)", in, out, maxHidden, recur, linkProb), maxSize: 24, nextId: 100}
	// the counters as NewPopulationRandom sets them
	f.Pop = genetics.VerifNewEmptyPopulation(int64(total*total+1), int32(total+1))
	f.Members = members
	f.IO = ioNodesOf(snapGenome(members[0]))
	return f
}
