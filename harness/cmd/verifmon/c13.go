package main

import (
	"fmt"
	"math"
	"math/rand"
	"sync"

	"github.com/yaricom/goNEAT/v4/neat/genetics"
	neatmath "github.com/yaricom/goNEAT/v4/neat/math"
	"github.com/yaricom/goNEAT/v4/neat/network"
)

// C13 - flushing makes a network indistinguishable from a freshly built one.

func init() {
	register(&Prop{
		ID: "C13", Level: "exploration", DesignRef: "DESIGN.md section 4 C13",
		Rule: "one case = 80 (quick) / 300 (thorough) networks (feed-forward, with 1-3 back edges / self-loops, the shipped modular genome) x " +
			"both solvers: a random history program P of sensor loads and activations (ForwardSteps k, RecursiveSteps, Relax, ActivateSteps, " +
			"Activate, capped depth queries; some end in an error) is run, the instance is flushed and a suffix program Q is run on it and on a " +
			"freshly built instance; every output vector and (bool, error) result in Q must be bit-identical, and after the flush all per-node " +
			"state read through the verif accessors must be clean. evaluations = (P,Q) pairs. A pair is non-trivial if the network is " +
			"recurrent or modular and P changed the outputs; distinct by (topology, programs) fingerprint.",
		Assumptions: []string{"both instances are built from the same description by the same constructor path; in a third of the fast-solver pairs the new instance is a second solver handed out by the used solver's own network object"},
		Cases: func(tier string) int {
			if tier == "quick" {
				return 3200
			}
			return 48000
		},
		Run:      runC13,
		Required: []string{"pairs.std", "pairs.fast", "pairs.recurrent", "pairs.modular", "pairs.with_time_delayed_links", "history.ended_in_error", "history.failed_for_unregistered_activation", "history.changed_outputs", "evaluate_twice"},
	})
}

type progOp struct {
	Kind string    `json:"op"`
	Arg  int       `json:"arg,omitempty"`
	Vec  []float64 `json:"vec,omitempty"`
	Eps  float64   `json:"eps,omitempty"`
}

func genProgram(r *rand.Rand, nIn int, fast bool, n int) []progOp {
	var p []progOp
	switch r.Intn(6) {
	case 0:
		p = append(p, progOp{Kind: "load", Vec: make([]float64, nIn)})
	case 1:
		// no load at all before the first activation
		p = append(p, progOp{Kind: "forward", Arg: 1})
	default:
		p = append(p, progOp{Kind: "load", Vec: randInputs(r, nIn, 1.5)})
	}
	for i := 0; i < n; i++ {
		switch r.Intn(8) {
		case 0, 1:
			switch r.Intn(5) {
			case 0:
				p = append(p, progOp{Kind: "load", Vec: make([]float64, nIn)}) // the all-zero vector (XOR's first row)
			case 1:
				// the vector loaded last, once more
				last := p[0].Vec
				for _, op := range p {
					if op.Kind == "load" {
						last = op.Vec
					}
				}
				if last == nil {
					last = randInputs(r, nIn, 1.5)
				}
				p = append(p, progOp{Kind: "load", Vec: append([]float64{}, last...)})
			default:
				p = append(p, progOp{Kind: "load", Vec: randInputs(r, nIn, 1.5)})
			}
		case 2, 3:
			p = append(p, progOp{Kind: "forward", Arg: r.Intn(5)})
		case 4:
			p = append(p, progOp{Kind: "recursive"})
		case 5:
			p = append(p, progOp{Kind: "relax", Arg: 1 + r.Intn(6), Eps: pick(r, 1e-300, 1e-3, 0.1)})
		case 6:
			if fast {
				p = append(p, progOp{Kind: "forward", Arg: 1 + r.Intn(3)})
			} else if r.Intn(2) == 0 {
				p = append(p, progOp{Kind: "activate_steps", Arg: r.Intn(4)})
			} else {
				p = append(p, progOp{Kind: "activate"})
			}
		default:
			if fast {
				p = append(p, progOp{Kind: "recursive"})
			} else if r.Intn(3) == 0 {
				// the activation paths printed to a writer that fails after a few bytes (a closed pipe)
				p = append(p, progOp{Kind: "paths", Arg: r.Intn(12)})
			} else {
				p = append(p, progOp{Kind: "depth", Arg: r.Intn(4)})
			}
		}
	}
	return p
}

type opResult struct {
	Outs []float64
	Ok   bool
	Err  string
	Val  int
}

func errStr(err error) string {
	if err == nil {
		return ""
	}
	return err.Error()
}

func runOp(s network.Solver, net *network.Network, op progOp) opResult {
	var res opResult
	switch op.Kind {
	case "load":
		res.Err = errStr(s.LoadSensors(op.Vec))
	case "forward":
		ok, err := s.ForwardSteps(op.Arg)
		res.Ok, res.Err = ok, errStr(err)
	case "recursive":
		ok, err := s.RecursiveSteps()
		res.Ok, res.Err = ok, errStr(err)
	case "relax":
		ok, err := s.Relax(op.Arg, op.Eps)
		res.Ok, res.Err = ok, errStr(err)
	case "activate_steps":
		ok, err := net.ActivateSteps(op.Arg)
		res.Ok, res.Err = ok, errStr(err)
	case "activate":
		ok, err := net.Activate()
		res.Ok, res.Err = ok, errStr(err)
	case "depth":
		v, err := net.MaxActivationDepthWithCap(op.Arg)
		res.Val, res.Err = v, errStr(err)
	case "paths":
		res.Err = errStr(network.PrintAllActivationDepthPaths(net, &failingWriter{left: op.Arg}))
	}
	res.Outs = s.ReadOutputs()
	return res
}

// failingWriter accepts a few bytes and fails from then on
type failingWriter struct{ left int }

func (w *failingWriter) Write(p []byte) (int, error) {
	if len(p) > w.left {
		n := w.left
		w.left = 0
		return n, fmt.Errorf("write failed: pipe closed")
	}
	w.left -= len(p)
	return len(p), nil
}

func sameResult(a, b opResult) bool {
	return a.Ok == b.Ok && a.Err == b.Err && a.Val == b.Val && vecBitsEqual(a.Outs, b.Outs)
}

var c13RecoveryOnce sync.Once

// c13FailedActivationThenFlush: a history that ends in a failed activation for a reason outside the network - a neuron uses
// an activation type the application has not registered yet; the application then registers it, flushes and goes on. It
// can be staged once per process only (the registry is process-wide).
func c13FailedActivationThenFlush(c *Ctx) {
	r := c.G
	const custom = neatmath.NodeActivationType(41)
	o := netGenOpts{maxIn: 2, maxBias: 1, maxHid: 6, minHid: 4, maxOut: 3, edgeProb: 0.3, weightScale: 1.0, reachable: true, chain: true,
		acts: []neatmath.NodeActivationType{neatmath.LinearActivation, neatmath.TanhActivation}}
	s := genNet(r, o)
	s.Acts[s.sensors()] = custom // the first hidden neuron of the chain, several links away from the outputs
	mk := func(fast bool) (network.Solver, *network.Network) {
		net := s.build()
		if fast {
			fs, err := net.FastNetworkSolver()
			if err != nil {
				panic("harness: " + err.Error())
			}
			return fs, net
		}
		return net, net
	}
	usedFast, usedFastNet := mk(true)
	usedStd, usedStdNet := mk(false)
	in := randInputs(r, s.NIn, 1.5)
	failed := 0
	for _, op := range []progOp{{Kind: "load", Vec: in}, {Kind: "recursive"}, {Kind: "forward", Arg: 2}} {
		if res := runOp(usedFast, usedFastNet, op); res.Err != "" {
			failed++
		}
		if res := runOp(usedStd, usedStdNet, op); res.Err != "" {
			failed++
		}
	}
	if failed == 0 {
		return // the type is known already in this process
	}
	c.Count("history.failed_for_unregistered_activation", 1)
	neatmath.NodeActivators.Register(custom, func(x float64, _ []float64) float64 { return 0.5 * x }, "C13LateActivation")
	for _, fast := range []bool{true, false} {
		used, usedNet := usedStd, usedStdNet
		if fast {
			used, usedNet = usedFast, usedFastNet
		}
		fresh, freshNet := mk(fast)
		if ok, err := used.Flush(); err != nil || !ok {
			c.Violate("flush-error", map[string]interface{}{"network": s.full()}, "Flush failed after a failed activation: %v %v", ok, err)
			return
		}
		Q := genProgram(r, s.NIn, fast, 5)
		c.Eval(1)
		for i, op := range Q {
			a, b := runOp(used, usedNet, op), runOp(fresh, freshNet, op)
			if !sameResult(a, b) {
				c.Violate("flushed-differs-from-fresh", map[string]interface{}{"network": s.full(), "fast_solver": fast, "suffix": Q, "step": i,
					"history": "load, recursive, forward(2) while the activation type of a hidden neuron was not registered yet (all failed); the type was registered then"},
					"after activations that failed for an unregistered activation type, its registration and a flush, step %d (%s): flushed instance gives %+v, fresh instance gives %+v", i, op.Kind, a, b)
				return
			}
		}
	}
}

func runC13(c *Ctx, idx int) {
	c13RecoveryOnce.Do(func() { c13FailedActivationThenFlush(c) })
	r := c.G
	n := 80
	if c.Tier == "thorough" {
		n = 300
	}
	for i := 0; i < n && !c.Violated(); i++ {
		kind := r.Intn(10)
		var builder func() *network.Network
		var desc map[string]interface{}
		var nIn int
		recurrent, modular, timeDelayed := false, false, false
		h := newHasher()
		switch {
		case kind == 0:
			// the shipped modular genome with random weights
			g, err := loadShippedGenome(modularGenomeFile)
			if err != nil {
				panic("harness: " + err.Error())
			}
			sg := snapGenome(g)
			for j := range sg.Genes {
				sg.Genes[j].W = fbits(r.NormFloat64())
				h.u64(sg.Genes[j].W)
			}
			builder = func() *network.Network {
				net, err := buildFromSnap(sg).Genesis(1)
				if err != nil {
					panic("harness: " + err.Error())
				}
				return net
			}
			nIn = 4
			modular = true
			desc = map[string]interface{}{"genome": modularGenomeFile, "weights": "random"}
		default:
			o := netGenOpts{maxIn: 3, maxBias: 1, maxHid: 6, maxOut: 2, edgeProb: pick(r, 0.2, 0.4), weightScale: pick(r, 0.5, 1.5),
				acts: []neatmath.NodeActivationType{neatmath.SigmoidSteepenedActivation, neatmath.TanhActivation, neatmath.LinearClippedActivation,
					neatmath.SigmoidPlainActivation, neatmath.GaussianActivation, neatmath.SineActivation, neatmath.StepActivation, neatmath.LinearActivation},
				reachable: r.Intn(5) != 0}
			if kind >= 4 {
				o.backEdges = 1 + r.Intn(3)
				o.minHid = 1
			}
			if r.Intn(4) == 0 {
				o.flagForward = 0.3
			}
			if r.Intn(4) == 0 {
				o.timeDelayed = pick(r, 0.2, 0.5)
			}
			s := genNet(r, o)
			for _, e := range s.Edges {
				recurrent = recurrent || e.Back
				h.i(e.From)
				h.i(e.To)
				h.u64(fbits(e.W))
			}
			viaGenesis := r.Intn(2) == 0
			for _, e := range s.Edges {
				if e.Delayed {
					viaGenesis = false // genes can not express a time delay
					timeDelayed = true
				}
			}
			var mods []netModule
			if kind == 1 || kind == 5 {
				// modules laid over a generated network (deeper module inputs than the shipped modular genome has)
				mods = genModules(r, s)
				for _, m := range mods {
					h.i(m.Out)
					h.i(int(m.Act))
					for _, u := range m.Ins {
						h.i(u)
					}
				}
			}
			builder = func() *network.Network {
				if len(mods) > 0 {
					return s.buildModular(mods)
				}
				if viaGenesis {
					net, err := s.genome().Genesis(1)
					if err != nil {
						panic("harness: " + err.Error())
					}
					return net
				}
				return s.build()
			}
			nIn = s.NIn
			desc = s.full()
			if len(mods) > 0 {
				modular = true
				desc["modules"] = fmt.Sprintf("%+v", mods)
			}
		}
		fast := r.Intn(2) == 0
		if timeDelayed {
			c.Count("pairs.with_time_delayed_links", 1)
		}
		c13Pair(c, r, builder, nIn, fast, recurrent, modular, desc, h)
	}
	// evaluating the same organism repeatedly on the same inputs gives identical results
	c13EvaluateTwice(c, r)
}

func c13Pair(c *Ctx, r *rand.Rand, builder func() *network.Network, nIn int, fast, recurrent, modular bool, desc map[string]interface{}, h *hasher) {
	P := genProgram(r, nIn, fast, 2+r.Intn(8))
	Q := genProgram(r, nIn, fast, 2+r.Intn(6))
	mk := func() (network.Solver, *network.Network) {
		net := builder()
		if fast {
			s, err := net.FastNetworkSolver()
			if err != nil {
				panic("harness: fast solver construction failed: " + err.Error())
			}
			return s, net
		}
		return net, net
	}
	used, usedNet := mk()
	fresh, freshNet := mk()
	var lateAfterFlush func()
	c.Eval(1)
	detail := func() map[string]interface{} {
		return map[string]interface{}{"network": desc, "fast_solver": fast, "history": P, "suffix": Q}
	}
	if !fast && r.Intn(40) == 0 {
		// an instance that has been in use for a very long time: its per-node activation counters (int32, exported) stand just
		// below their maximum and wrap around during the history - the state 2^31 sensor loads / activations lead to
		for _, nd := range usedNet.AllNodes() {
			nd.ActivationsCount = math.MaxInt32 - int32(r.Intn(3))
		}
		c.Count("history.activation_counters_wrap_around", 1)
	}
	if sensors := countSensors(usedNet); !fast && sensors > nIn && r.Intn(3) == 0 {
		// the caller loads the bias sensors explicitly, with a value other than one, somewhere in the history: loads of the plain
		// input vector after the flush mean bias = 1, as on a new instance
		for k := 0; k < 1+r.Intn(2); k++ {
			full := append(randInputs(r, nIn, 1.5), make([]float64, sensors-nIn)...)
			for i := nIn; i < sensors; i++ {
				full[i] = pick(r, 0.3, -2.0, 0.0)
			}
			at := 1 + r.Intn(len(P))
			P = append(P[:at], append([]progOp{{Kind: "load", Vec: full}}, P[at:]...)...)
		}
		c.Count("history.explicit_bias_loads", 1)
	}
	before := used.ReadOutputs()
	endedInError := false
	for _, op := range P {
		res := runOp(used, usedNet, op)
		endedInError = res.Err != ""
	}
	changed := !vecBitsEqual(before, used.ReadOutputs())
	if fast && r.Intn(3) == 0 {
		// the new instance is a second solver of the same phenotype: the network object the used solver was derived from is asked
		// for another one, after the history (before or after the flush)
		late := func() {
			s2, err2 := usedNet.FastNetworkSolver()
			if err2 != nil {
				panic("harness: fast solver construction failed: " + err2.Error())
			}
			fresh, freshNet = s2, usedNet
		}
		if r.Intn(2) == 0 {
			late()
		} else {
			lateAfterFlush = late
		}
		c.Count("pairs.new_instance_is_second_solver_of_the_used_network", 1)
	}
	ok, err := used.Flush()
	if err != nil || !ok {
		c.Violate("flush-error", detail(), "Flush failed: %v %v", ok, err)
		return
	}
	if lateAfterFlush != nil {
		lateAfterFlush()
	}
	// per-node state must be clean
	if fast {
		st := used.(*network.FastModularNetworkSolver).VerifState()
		for i := st.BiasNeuronCount; i < st.TotalNeuronCount; i++ {
			if st.NeuronSignals[i] != 0 || st.NeuronSignalsBeingProcessed[i] != 0 {
				c.Violate("flush-state", detail(), "fast solver neuron %d keeps signal %v / %v after the flush", i, st.NeuronSignals[i], st.NeuronSignalsBeingProcessed[i])
				return
			}
		}
	} else {
		for _, nd := range usedNet.BaseNodes() {
			st := nd.VerifState()
			if st.Visited || st.IsActive || st.LastActivation != 0 || st.LastActivation2 != 0 || nd.Activation != 0 || nd.ActivationsCount != 0 {
				c.Violate("flush-state", detail(), "node %d keeps state after the flush: %+v activation=%v count=%d", nd.Id, st, nd.Activation, nd.ActivationsCount)
				return
			}
		}
	}
	for i, op := range Q {
		a := runOp(used, usedNet, op)
		b := runOp(fresh, freshNet, op)
		if !sameResult(a, b) {
			d := detail()
			d["step"] = i
			d["flushed_result"] = fmt.Sprintf("%+v", a)
			d["fresh_result"] = fmt.Sprintf("%+v", b)
			c.Violate("flushed-differs-from-fresh", d, "step %d (%s) of the suffix: flushed instance gives %+v, fresh instance gives %+v", i, op.Kind, a, b)
			return
		}
	}
	if fast {
		c.Count("pairs.fast", 1)
	} else {
		c.Count("pairs.std", 1)
	}
	if recurrent {
		c.Count("pairs.recurrent", 1)
	}
	if modular {
		c.Count("pairs.modular", 1)
	}
	if endedInError {
		c.Count("history.ended_in_error", 1)
	}
	if changed {
		c.Count("history.changed_outputs", 1)
	}
	if (recurrent || modular) && changed {
		for _, op := range append(append([]progOp{}, P...), Q...) {
			h.i(len(op.Kind))
			h.i(op.Arg)
			for _, v := range op.Vec {
				h.u64(fbits(v))
			}
		}
		h.b(fast)
		c.Distinct(h.sum())
		if c.WantSample() {
			c.Sample(map[string]interface{}{"network": desc, "fast_solver": fast, "history_ops": len(P), "suffix_ops": len(Q), "history_ended_in_error": endedInError})
		}
	}
}

// c13EvaluateTwice activates phenotype of an evolved organism on the same inputs twice with a flush in between
func c13EvaluateTwice(c *Ctx, r *rand.Rand) {
	o := genOpts(r)
	o.RecurOnlyProb = 0.5
	f := newFamily(r, o)
	f.grow(r, 120)
	for k := 0; k < 10; k++ {
		g := independentCopy(f.pickMember(r), f.newId())
		org, err := genetics.NewOrganism(0, g, 1)
		if err != nil {
			continue
		}
		net, err := org.Phenotype()
		if err != nil {
			continue
		}
		nIn := 0
		for _, n := range g.Nodes {
			if n.NeuronType == network.InputNeuron {
				nIn++
			}
		}
		in := randInputs(r, nIn, 1.0)
		eval := func() ([]float64, string) {
			if err := net.LoadSensors(in); err != nil {
				return nil, err.Error()
			}
			_, err := net.ForwardSteps(3)
			outs := net.ReadOutputs()
			_, _ = net.Flush()
			return outs, errStr(err)
		}
		o1, e1 := eval()
		o2, e2 := eval()
		o3, e3 := eval()
		c.Eval(1)
		c.Count("evaluate_twice", 1)
		if e1 != e2 || e1 != e3 || !vecBitsEqual(o1, o2) || !vecBitsEqual(o1, o3) {
			c.Violate("evaluate-twice", map[string]interface{}{"genome": genomeText(g), "inputs": in}, "repeated evaluation of the same organism gives %v (%s), %v (%s), %v (%s)", o1, e1, o2, e2, o3, e3)
			return
		}
	}
}

func countSensors(net *network.Network) int {
	n := 0
	for _, nd := range net.BaseNodes() {
		if nd.IsSensor() {
			n++
		}
	}
	return n
}
