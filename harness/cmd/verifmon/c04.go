package main

import (
	"fmt"
	"github.com/yaricom/goNEAT/v4/neat"
	"github.com/yaricom/goNEAT/v4/neat/genetics"
	"math"
	"math/rand"

	"github.com/yaricom/goNEAT/v4/neat/network"
)

// C04 - crossover children inherit genes only as NEAT's alignment rules allow.

func init() {
	register(&Prop{
		ID: "C04", Level: "exploration", DesignRef: "DESIGN.md section 4 C04",
		Rule: "one case = one family of genomes grown from a start genome by a random operator history (common ancestry, one innovation " +
			"registry), then 120 (quick) / 400 (thorough) matings of member pairs (incl. self-mating and mating with a duplicate) by all " +
			"three methods under fitness orderings <, >, = ; each child is checked against the alignment of its parents computed from " +
			"snapshots. evaluations = matings. A mating is non-trivial if the parents have both matching and non-matching genes and at " +
			"least one of them has a disabled gene; distinct by (parents fingerprints, method, ordering).",
		Assumptions: []string{"parents are well-formed non-modular genomes with common ancestry and equal trait counts (family members)"},
		Cases: func(tier string) int {
			if tier == "quick" {
				return 3200
			}
			return 48000
		},
		Run: runC04,
		Required: []string{"matings.mate_multipoint", "matings.mate_multipoint_avg", "matings.mate_singlepoint", "pattern.matching",
			"pattern.single_carrier_fitter", "pattern.single_carrier_other_skipped", "pattern.disabled_single_carrier", "pattern.tie",
			"pattern.both_enabled", "pattern.one_side_disabled"},
	})
}

func runC04(c *Ctx, idx int) {
	r := c.G
	if idx%8 == 5 {
		c04InEpochs(c)
		return
	}
	o := genOpts(r)
	// keep genes toggling so that disabled genes are common
	o.MutateToggleEnableProb = 0.3 + r.Float64()*0.5
	f := newFamily(r, o)
	f.grow(r, 60+r.Intn(140))
	n := 120
	if c.Tier == "thorough" {
		n = 400
	}
	for i := 0; i < n && !c.Violated(); i++ {
		// interleave further growth so that parents keep diverging
		if i%20 == 19 {
			f.grow(r, 20)
		}
		c04Mating(c, f, r)
	}
}

func c04Mating(c *Ctx, f *Family, r *rand.Rand) {
	a := f.pickMember(r)
	b := f.pickMember(r)
	switch r.Intn(10) {
	case 0:
		b = a // self-mating
		c.Count("pairs.self", 1)
	case 1:
		s := snapGenome(a)
		s.Id = f.newId()
		b = buildFromSnap(s) // mating with an exact (independently built) duplicate
		c.Count("pairs.duplicate", 1)
	case 2:
		// a sibling whose weights were tuned by hand (or by a learning rule of the application): the weights differ from the
		// other parent's, the mutation numbers - which only the library's own weight mutation updates - do not
		s := snapGenome(a)
		s.Id = f.newId()
		for i := range s.Genes {
			if r.Intn(3) != 0 {
				s.Genes[i].W = fbits(bitsf(s.Genes[i].W) + r.NormFloat64())
			}
			if r.Intn(4) == 0 {
				s.Genes[i].En = !s.Genes[i].En
			}
		}
		b = buildFromSnap(s)
		c.Count("pairs.sibling_with_hand_tuned_weights", 1)
	}
	// parents that have been mated before (or not) are extended by hand, the way an application assembles genomes: the same new
	// connection (one innovation number, weights of their own) is appended to the exported gene lists of both
	if a != b && r.Intn(5) == 0 {
		c04ExtendByHand(c, f, r, a, b)
	}
	// two different parents may carry the same genome id (every species numbers its babies from zero)
	if a != b && r.Intn(4) == 0 {
		oldId := b.Id
		b.Id = a.Id
		defer func() { b.Id = oldId }()
		c.Count("pairs.equal_genome_ids", 1)
	}
	op := opKind(int(opMateMultipoint) + r.Intn(3))
	fa, fb := r.Float64()*10, r.Float64()*10
	ordering := "<"
	if r.Intn(40) == 0 {
		// a tie at infinity is a tie as well (a fitness that overflowed on both sides)
		fa = math.Inf(1 - 2*r.Intn(2))
		fb = fa
		ordering = "="
		c.Count("pairs.tie_at_infinity", 1)
	} else {
		ordering = ""
	}
	switch {
	case ordering == "=":
	default:
		switch r.Intn(3) {
		case 0:
			fb = fa
			ordering = "="
		case 1:
			if fa < fb {
				fa, fb = fb, fa
			}
			ordering = ">"
		default:
			ordering = "<"
			if fa > fb {
				fa, fb = fb, fa
			}
		}
	}
	sa, sb := snapGenome(a), snapGenome(b)
	pa, pb := genomePointers(a), genomePointers(b)
	child, err := f.applyMate(op, a, b, f.newId(), fa, fb)
	c.Eval(1)
	c.Count("matings."+op.String(), 1)
	detail := func() map[string]interface{} {
		d := map[string]interface{}{"method": op.String(), "fitness1": fmt.Sprint(fa), "fitness2": fmt.Sprint(fb), "parent1": sa, "parent2": sb, "start": f.StartSrc}
		if child != nil {
			d["child"] = snapGenome(child)
		}
		return d
	}
	if err != nil || child == nil {
		c.Violate("mate-error", detail(), "%s failed on parents with common ancestry: %v", op, err)
		return
	}
	// parents must be left unmodified
	if d := diffGenomes(sa, snapGenome(a)); d != "" {
		c.Violate("parent-modified", detail(), "%s modified its first parent: %s", op, d)
		return
	}
	if d := diffGenomes(sb, snapGenome(b)); d != "" {
		c.Violate("parent-modified", detail(), "%s modified its second parent: %s", op, d)
		return
	}
	if len(genomePointers(a)) != len(pa) || len(genomePointers(b)) != len(pb) {
		c.Violate("parent-modified", detail(), "%s changed the object graph of a parent", op)
		return
	}
	sc := snapGenome(child)
	if sc.Broken != "" {
		c.Violate("child-broken", detail(), "%s produced a broken child: %s", op, sc.Broken)
		return
	}
	if kind, msg := c04Oracle(c, sa, sb, sc, op, fa, fb); kind != "" {
		c.Violate(kind, detail(), "%s (%v %s %v): %s", op, fa, ordering, fb, msg)
		return
	}
	if c.WantSample() && len(sc.Genes) > 3 {
		c.Sample(map[string]interface{}{"method": op.String(), "ordering": ordering, "parent1": sa.brief(), "parent2": sb.brief(), "child": sc.brief()})
	}
	if len(child.Genes) > 0 {
		f.add(child, r)
	}
}

// c04Oracle checks the child against the alignment of the parents; all data are plain snapshots
func c04Oracle(c *Ctx, p1, p2, ch *SnapGenome, op opKind, f1, f2 float64) (string, string) {
	g1 := map[int64]SnapGene{}
	g2 := map[int64]SnapGene{}
	for _, g := range p1.Genes {
		g1[g.Innov] = g
	}
	for _, g := range p2.Genes {
		g2[g.Innov] = g
	}
	// which parent is the fitter one (multipoint methods); on a full tie either is accepted
	p1fitter, p2fitter := false, false
	switch {
	case f1 > f2:
		p1fitter = true
	case f2 > f1:
		p2fitter = true
	case len(p1.Genes) < len(p2.Genes):
		p1fitter = true
	case len(p2.Genes) < len(p1.Genes):
		p2fitter = true
	default:
		p1fitter, p2fitter = true, true
		c.Count("pattern.tie", 1)
	}
	multipoint := op == opMateMultipoint || op == opMateMultipointAvg
	seen := map[int64]bool{}
	fromP1Only, fromP2Only := 0, 0
	hasMatching, hasSingle, hasDisabled := false, false, p1.countDisabled() > 0 || p2.countDisabled() > 0
	for _, g := range ch.Genes {
		if seen[g.Innov] {
			return "gene-twice", fmt.Sprintf("innovation %d occurs twice in the child", g.Innov)
		}
		seen[g.Innov] = true
		a, in1 := g1[g.Innov]
		b, in2 := g2[g.Innov]
		if !in1 && !in2 {
			return "gene-from-nowhere", fmt.Sprintf("child gene %s has innovation number which no parent carries", geneStr(g))
		}
		same := func(p SnapGene) bool { return p.In == g.In && p.Out == g.Out && p.Rec == g.Rec }
		if (in1 && !same(a)) || (in2 && !same(b)) {
			if !(in1 && same(a)) && !(in2 && same(b)) {
				return "gene-endpoints", fmt.Sprintf("child gene %s differs in endpoints / recurrence from the parents' gene with that innovation number", geneStr(g))
			}
		}
		switch {
		case in1 && in2:
			hasMatching = true
			c.Count("pattern.matching", 1)
			avg := fbits((bitsf(a.W) + bitsf(b.W)) / 2.0)
			switch op {
			case opMateMultipoint:
				if g.W != a.W && g.W != b.W {
					return "weight", fmt.Sprintf("matching gene %d has weight %v, parents have %v and %v", g.Innov, bitsf(g.W), bitsf(a.W), bitsf(b.W))
				}
			case opMateMultipointAvg:
				if g.W != avg {
					return "weight", fmt.Sprintf("matching gene %d has weight %v, the mean of parents' weights %v and %v is %v", g.Innov, bitsf(g.W), bitsf(a.W), bitsf(b.W), bitsf(avg))
				}
			default:
				if g.W != a.W && g.W != b.W && g.W != avg {
					return "weight", fmt.Sprintf("matching gene %d has weight %v, parents have %v and %v", g.Innov, bitsf(g.W), bitsf(a.W), bitsf(b.W))
				}
				if g.W == avg && a.W != b.W {
					c.Count("pattern.singlepoint_averaged", 1)
				}
			}
			if a.En && b.En {
				c.Count("pattern.both_enabled", 1)
				if !g.En {
					return "enabled-flag", fmt.Sprintf("gene %d is enabled in both parents but disabled in the child", g.Innov)
				}
			} else {
				c.Count("pattern.one_side_disabled", 1)
				if g.En {
					c.Count("pattern.one_side_disabled_child_enabled", 1)
				}
			}
		default:
			hasSingle = true
			p := a
			if in2 {
				p = b
				fromP2Only++
			} else {
				fromP1Only++
			}
			if g.W != p.W {
				return "weight", fmt.Sprintf("gene %d carried by one parent has weight %v, the parent has %v", g.Innov, bitsf(g.W), bitsf(p.W))
			}
			if g.En != p.En {
				return "enabled-flag", fmt.Sprintf("gene %d is carried by one parent with enabled=%v but the child has enabled=%v", g.Innov, p.En, g.En)
			}
			if !p.En {
				c.Count("pattern.disabled_single_carrier", 1)
			}
		}
	}
	if multipoint {
		// genes present in only one parent come only from the fitter parent
		if fromP1Only > 0 && !p1fitter {
			return "single-carrier-from-worse", fmt.Sprintf("%d genes carried only by the first (less fit) parent were inherited", fromP1Only)
		}
		if fromP2Only > 0 && !p2fitter {
			return "single-carrier-from-worse", fmt.Sprintf("%d genes carried only by the second (less fit) parent were inherited", fromP2Only)
		}
		if fromP1Only > 0 && fromP2Only > 0 {
			return "single-carrier-from-both", "genes carried by one parent only were inherited from both parents"
		}
		c.Count("pattern.single_carrier_fitter", fromP1Only+fromP2Only)
		// every gene present in both parents is inherited
		for innov := range g1 {
			if _, ok := g2[innov]; ok && !seen[innov] {
				return "matching-gene-lost", fmt.Sprintf("gene %d is present in both parents but missing in the child", innov)
			}
		}
		skipped := 0
		for innov := range g1 {
			if _, ok := g2[innov]; !ok && !seen[innov] {
				skipped++
			}
		}
		for innov := range g2 {
			if _, ok := g1[innov]; !ok && !seen[innov] {
				skipped++
			}
		}
		c.Count("pattern.single_carrier_other_skipped", skipped)
	}
	// nodes: io nodes of the parents plus exactly the nodes the child's genes touch
	n1 := map[int]SnapNode{}
	n2 := map[int]SnapNode{}
	for _, n := range p1.Nodes {
		n1[n.Id] = n
	}
	for _, n := range p2.Nodes {
		n2[n.Id] = n
	}
	want := map[int]bool{}
	for _, n := range p1.Nodes {
		if n.Neuron != byte(network.HiddenNeuron) {
			want[n.Id] = true
		}
	}
	for _, n := range p2.Nodes {
		if n.Neuron != byte(network.HiddenNeuron) {
			want[n.Id] = true
		}
	}
	for _, g := range ch.Genes {
		want[g.In] = true
		want[g.Out] = true
	}
	have := map[int]bool{}
	for _, n := range ch.Nodes {
		if have[n.Id] {
			return "node-twice", fmt.Sprintf("node %d occurs twice in the child", n.Id)
		}
		have[n.Id] = true
		if !want[n.Id] {
			return "extra-node", fmt.Sprintf("child has node %d which is neither an io node of the parents nor touched by its genes", n.Id)
		}
		a, in1 := n1[n.Id]
		b, in2 := n2[n.Id]
		ok := (in1 && a.Neuron == n.Neuron && a.Act == n.Act) || (in2 && b.Neuron == n.Neuron && b.Act == n.Act)
		if !ok {
			return "node-kind", fmt.Sprintf("child node %d has role %d / activation %d which no parent's node with that id has", n.Id, n.Neuron, n.Act)
		}
	}
	for id := range want {
		if !have[id] {
			return "node-missing", fmt.Sprintf("child lacks node %d (io node of the parents or endpoint of its gene)", id)
		}
	}
	// traits are averaged
	if len(ch.Traits) != len(p1.Traits) {
		return "traits-count", fmt.Sprintf("child has %d traits, parents have %d", len(ch.Traits), len(p1.Traits))
	}
	for i, t := range ch.Traits {
		if len(t.Params) != len(p1.Traits[i].Params) {
			return "trait-params", fmt.Sprintf("trait #%d has %d parameters", i, len(t.Params))
		}
		for j, p := range t.Params {
			w := fbits((bitsf(p1.Traits[i].Params[j]) + bitsf(p2.Traits[i].Params[j])) / 2.0)
			if p != w {
				return "trait-params", fmt.Sprintf("trait #%d parameter %d is %v, the mean of the parents' %v and %v is %v", i, j, bitsf(p),
					bitsf(p1.Traits[i].Params[j]), bitsf(p2.Traits[i].Params[j]), bitsf(w))
			}
		}
	}
	if hasMatching && hasSingle && hasDisabled {
		h := newHasher()
		h.u64(p1.fingerprint())
		h.u64(p2.fingerprint())
		h.i(int(op))
		h.b(f1 > f2)
		h.b(f1 == f2)
		c.Distinct(h.sum())
	}
	return "", ""
}

// c04InEpochs: the crossovers as the reproduction of a species calls them. A scenario of real epochs (sequential executor,
// spawned population - common ancestry) is watched at the Mated hook: every child is checked against snapshots of the two
// organisms it was made from, the fitter parent being the one with the higher fitness the evaluator assigned (the library
// rewrites the organisms' fitness by sharing, age boost and stagnation penalty before it reproduces). Matings across
// species are frequent.
func c04InEpochs(c *Ctx) {
	r := c.G
	sc := genScenario(r, false)
	sc.Parallel = false
	if sc.Ctor == ctorRandom {
		sc.Ctor = ctorSpawn
		if sc.Start == nil {
			o := genOpts(r)
			sc.Start, sc.StartSrc = startGenome(r, o)
		}
	}
	sc.RestoreAt = 0
	sc.Epochs = 8 + r.Intn(8)
	sc.Fitness = pick(r, fitUniform, fitLogNormal, fitDistinct)
	sc.Opts.MutateOnlyProb = 0.2
	sc.Opts.MateOnlyProb = 0.3
	sc.Opts.InterspeciesMateRate = pick(r, 0.05, 0.3, 0.8)
	sc.Opts.CompatThreshold = pick(r, 0.3, 1.0, 2.0) // several species of different sizes and ages
	sc.Opts.MutateAddNodeProb = 0.2 + r.Float64()*0.3
	sc.Opts.MutateAddLinkProb = 0.2 + r.Float64()*0.4
	sc.Opts.MutateToggleEnableProb = 0.3
	sc.Opts.DropOffAge = 2 + r.Intn(4)
	if sc.Opts.PopSize < 20 {
		sc.Opts.PopSize = pick(r, 20, 40, 60)
	}
	if sc.Opts.PopSize > 80 {
		sc.Opts.PopSize = 80
	}
	if sc.Opts.BabiesStolen > sc.Opts.PopSize/2 {
		sc.Opts.BabiesStolen = sc.Opts.PopSize / 2
	}
	c.Count("scenarios.in_epochs", 1)
	runScenario(c, sc, &mateMonitor{})
}

type mateMonitor struct {
	fit  map[*genetics.Organism]float64
	stop bool
}

func (m *mateMonitor) Constructed(c *Ctx, sc *EvoScenario, pop *genetics.Population) {
	genetics.VerifHooks.Mated = func(mom, dad *genetics.Organism, child *genetics.Genome, method string) {
		if m.stop || c.Violated() {
			return
		}
		f1, ok1 := m.fit[mom]
		f2, ok2 := m.fit[dad]
		if !ok1 || !ok2 || child == nil {
			return
		}
		op := map[string]opKind{"multipoint": opMateMultipoint, "multipoint_avg": opMateMultipointAvg, "singlepoint": opMateSinglePoint}[method]
		sa, sb, sch := snapGenome(mom.Genotype), snapGenome(dad.Genotype), snapGenome(child)
		if len(sa.Modules) > 0 || len(sb.Modules) > 0 {
			return
		}
		c.Eval(1)
		c.Count("matings.in_epochs."+method, 1)
		if mom.Species != dad.Species {
			c.Count("matings.in_epochs.across_species", 1)
		}
		if kind, msg := c04Oracle(c, sa, sb, sch, op, f1, f2); kind != "" {
			m.stop = true
			c.Violate(kind, map[string]interface{}{"method": method, "fitness_assigned_to_mom": fmt.Sprint(f1), "fitness_assigned_to_dad": fmt.Sprint(f2),
				"fitness_fields_at_mating": fmt.Sprint(mom.Fitness, " / ", dad.Fitness), "parent1": sa, "parent2": sb, "child": sch, "scenario": sc.brief(), "in_epoch": true},
				"%s inside an epoch (mom was assigned fitness %v, dad %v): %s", method, f1, f2, msg)
		}
	}
}

func (m *mateMonitor) BeforeEpoch(c *Ctx, sc *EvoScenario, gen int, pop *genetics.Population) {
	m.fit = make(map[*genetics.Organism]float64, len(pop.Organisms))
	for _, org := range pop.Organisms {
		m.fit[org] = org.Fitness
	}
}

func (m *mateMonitor) AfterEpoch(c *Ctx, sc *EvoScenario, gen int, pop *genetics.Population, err error) bool {
	return err == nil && !m.stop
}

// c04ExtendByHand appends one or two new connection genes - innovation numbers drawn from the family's generator, hence above
// everything either genome holds - to the exported Genes lists of both genomes (not through the library's mutators). The
// connection joins nodes both genomes have, does not end in a sensor and is new to both, so both stay well-formed and related.
func c04ExtendByHand(c *Ctx, f *Family, r *rand.Rand, a, b *genetics.Genome) {
	if len(a.Genes) > 240 || len(b.Genes) > 240 {
		return
	}
	type key struct {
		from, to int
		rec      bool
	}
	have := map[key]bool{}
	for _, g := range []*genetics.Genome{a, b} {
		for _, gn := range g.Genes {
			have[key{gn.Link.InNode.Id, gn.Link.OutNode.Id, gn.Link.IsRecurrent}] = true
		}
	}
	var common []int
	for _, n := range a.Nodes {
		if m := b.NodeWithId(n.Id); m != nil && m.NeuronType == n.NeuronType {
			common = append(common, n.Id)
		}
	}
	added := 0
	for try := 0; try < 40 && added < 1+r.Intn(2) && len(common) > 1; try++ {
		k := key{common[r.Intn(len(common))], common[r.Intn(len(common))], r.Intn(3) == 0}
		to := a.NodeWithId(k.to)
		if have[k] || to.IsSensor() || (k.from == k.to && !k.rec) {
			continue
		}
		have[k] = true
		innov := f.Pop.NextInnovationNumber()
		for _, g := range []*genetics.Genome{a, b} {
			w := math.Round(r.NormFloat64()*4000)/1000 + 0
			var tr *neat.Trait
			if len(g.Traits) > 0 {
				tr = g.Traits[r.Intn(len(g.Traits))]
			}
			g.Genes = append(g.Genes, genetics.NewGeneWithTrait(tr, w, g.NodeWithId(k.from), g.NodeWithId(k.to), k.rec, innov, w))
		}
		added++
	}
	if added > 0 {
		c.Count("pairs.both_parents_extended_by_hand_before_the_mating", 1)
	}
}
