package main

import (
	"context"
	"fmt"
	"math/rand"
	"os"
	"os/exec"
	"runtime"
	"strings"
	"sync/atomic"
	"syscall"
	"time"

	"github.com/yaricom/goNEAT/v4/experiment"
	"github.com/yaricom/goNEAT/v4/neat"
	"github.com/yaricom/goNEAT/v4/neat/genetics"
	neatmath "github.com/yaricom/goNEAT/v4/neat/math"
)

// C17 - evolution is reproducible from the random seed.

func init() {
	register(&Prop{
		ID: "C17", Level: "exploration", DesignRef: "DESIGN.md section 4 C17",
		Rule: "one case = one scenario (seed, start genome, options, NewPopulation or NewPopulationRandom, 20-40 epochs, sequential executor, " +
			"fitness a deterministic function of the genome snapshot): the per-epoch hashes of the serialised population (all genomes " +
			"bit-exact, species ids / ages / sizes, innovation and node counters) are compared between (a0) two runs on the very same start genome / options objects, which must come back unmodified, (a) two runs in this process, the " +
			"second after unrelated work (another evolution under a different seed, 64 MB of allocations, a GC) and (b) two runs in " +
			"separate processes, one of them under GOGC=1 GOMAXPROCS=1. evaluations = epochs compared. A scenario is non-trivial if the " +
			"final population has >= 2 species and a genome with a hidden node; distinct by final hash.",
		Assumptions: []string{"the global math/rand source is seeded with rand.Seed before each run", "sequential executor only"},
		Cases: func(tier string) int {
			if tier == "quick" {
				return 256
			}
			return 5760
		},
		Run:        runC17,
		Required:   []string{"runs.cross_process_stuttered", "runs.in_process", "runs.same_input_objects", "runs.copied_options", "runs.cross_process", "scenarios.random_population", "scenarios.spawned", "scenarios.modular_start_genome_with_crossover", "runs.through_experiment_execute", "epochs.compared", "scenarios.fitness_with_ties", "scenarios.fitness_mostly_negative", "scenarios.population_of_thousands", "runs.served_by_an_executor_used_before"},
		TimeoutSec: func(tier string) int { return 7200 },
	})
}

type c17Result struct {
	hashes   []string
	species  int
	hidden   bool
	final    string
	errText  string
	organism string
}

// c17Scenario is a pure function of (seed, idx)
func c17Scenario(seed int64, idx int) (*EvoScenario, int64) {
	cs := caseSeed(seed, "C17", idx)
	g := rand.New(rand.NewSource(cs))
	// the library consumes the global source while the scenario is generated (newGenomeRand): seed it first
	rand.Seed(cs)
	sc := genScenario(g, false)
	sc.Parallel = false
	sc.Epochs = 20 + g.Intn(21)
	if idx%3 == 0 {
		sc.coarseFitness = true
		if sc.Opts.BabiesStolen == 0 && g.Intn(2) == 0 {
			sc.Opts.BabiesStolen = pick(g, 2, 5, sc.Opts.PopSize/4)
		}
		if sc.Opts.DropOffAge > 8 {
			sc.Opts.DropOffAge = 1 + g.Intn(8)
		}
	}
	if idx%3 == 1 && g.Intn(2) == 0 {
		sc.signedFitness = true
	}
	if sc.Ctor == ctorRead {
		sc.Ctor = ctorSpawn
	}
	if sc.Opts.PopSize > 80 {
		sc.Opts.PopSize = 80
		if sc.Opts.BabiesStolen > 40 {
			sc.Opts.BabiesStolen = 40
		}
	}
	if idx%64 == 7 {
		// a population of thousands (spawned, one or two species, two turnovers): sizes at which an implementation may switch to
		// another way of doing the same work
		sc.Ctor = ctorSpawn
		sc.Opts.PopSize = pick(g, 2048, 2500, 4096, 6000)
		sc.Opts.CompatThreshold = pick(g, 1e6, 6.0)
		sc.Opts.BabiesStolen = pick(g, 0, 10)
		sc.Epochs = 2
		sc.hugePopulation = true
	}
	if idx%16 == 5 {
		// a modular start genome (the shipped one, rewired), crossovers included: a handful of epochs only, because every mating
		// hands the modules of both parents to the child and their number doubles
		mg, err := loadShippedGenome(modularGenomeFile)
		if err != nil {
			panic("harness: " + err.Error())
		}
		ms := snapGenome(mg)
		modularVariants(g, ms)
		for i := range ms.Genes {
			ms.Genes[i].W = fbits(g.NormFloat64())
		}
		sc.Ctor, sc.Start, sc.StartSrc = ctorSpawn, buildFromSnap(ms), "file:"+modularGenomeFile+" (modular, rewired)"
		sc.Epochs = 4 + g.Intn(3)
		if sc.Opts.PopSize > 40 {
			sc.Opts.PopSize = 40
		}
		if sc.Opts.MutateOnlyProb > 0.5 {
			sc.Opts.MutateOnlyProb = 0.3
		}
		sc.modular = true
	}
	if idx%16 == 13 {
		// genomes of 40-100 genes in many species whose distances are purely structural: an organism is as far from one
		// representative as from several others, and ties are decided by the order of the species alone
		sp := genSpec(g)
		sp.Inputs, sp.Hidden, sp.Outputs, sp.GeneProb, sp.TraitBase = 6+g.Intn(3), 3+g.Intn(3), 4+g.Intn(3), 0.6, 1
		sc.Ctor, sc.Start, sc.StartSrc = ctorSpawn, buildGenome(g, sp, 1), "built: 40-100 genes"
		sc.Opts.MutdiffCoeff, sc.Opts.DisjointCoeff, sc.Opts.ExcessCoeff = 0, 1, 1
		sc.Opts.CompatThreshold = pick(g, 1.5, 2.5)
		sc.Opts.MutateAddLinkProb, sc.Opts.MutateAddNodeProb, sc.Opts.MutateOnlyProb = 0.6, 0.3, 0.8
		sc.Opts.PopSize = 60 + g.Intn(21)
		sc.Opts.BabiesStolen = 0
		sc.Epochs = 12 + g.Intn(8)
		sc.manySpeciesTies = true
	}
	if idx%16 == 9 && sc.Ctor == ctorSpawn && sc.Start != nil && len(sc.Start.Genes) > 2 {
		// a start genome put together by hand whose connection genes are not listed in the order of their innovation numbers
		ss := snapGenome(sc.Start)
		g.Shuffle(len(ss.Genes), func(i, j int) { ss.Genes[i], ss.Genes[j] = ss.Genes[j], ss.Genes[i] })
		sc.Start, sc.StartSrc = buildFromSnap(ss), sc.StartSrc+" (genes listed out of innovation order)"
		sc.genesShuffled = true
	}
	if idx%4 == 3 {
		// the list of activation functions comes out of an options file, through the library's own reader, anew for every run: the
		// same text is the same input. The list names one function twice (configurations merged by hand) beside two others.
		acts := append([]neatmath.NodeActivationType{}, sc.Opts.NodeActivators...)
		for len(acts) < 3 {
			acts = append(acts, scalarActivations[g.Intn(len(scalarActivations))])
		}
		for distinct := 0; distinct < 3; {
			seen := map[neatmath.NodeActivationType]bool{}
			for _, a := range acts {
				seen[a] = true
			}
			if distinct = len(seen); distinct < 3 {
				acts = append(acts, scalarActivations[g.Intn(len(scalarActivations))])
			}
		}
		acts = append(acts, acts[g.Intn(len(acts))])
		g.Shuffle(len(acts), func(i, j int) { acts[i], acts[j] = acts[j], acts[i] })
		text := c17OptionsTemplate() + "\nnode_activators:\n"
		for _, a := range acts {
			name, err := neatmath.NodeActivators.ActivationNameFromType(a)
			if err != nil {
				panic("harness: " + err.Error())
			}
			text += fmt.Sprintf("  - %s %.3f\n", name, 0.1+float64(g.Intn(900))/1000)
		}
		loaded, err := neat.LoadYAMLOptions(strings.NewReader(text))
		if err != nil {
			panic("harness: options text not accepted by the reader: " + err.Error())
		}
		sc.Opts.NodeActivators, sc.Opts.NodeActivatorsProb = loaded.NodeActivators, loaded.NodeActivatorsProb
		if sc.Opts.MutateAddNodeProb < 0.15 {
			sc.Opts.MutateAddNodeProb = 0.15 + 0.2*g.Float64()
		}
		sc.activatorsFromFile = true
	}
	return sc, int64(splitmix(uint64(cs)+77) >> 1)
}

var c17Template string

// c17OptionsTemplate is the shipped XOR options file without its list of activation functions
func c17OptionsTemplate() string {
	if c17Template == "" {
		raw, err := os.ReadFile(repoRoot() + "/data/xor_test.neat.yml")
		if err != nil {
			panic("harness: " + err.Error())
		}
		var keep []string
		skipping := false
		for _, line := range strings.Split(string(raw), "\n") {
			if strings.HasPrefix(line, "node_activators:") {
				skipping = true
				continue
			}
			if skipping && (strings.HasPrefix(line, "  -") || strings.TrimSpace(line) == "") {
				continue
			}
			skipping = false
			keep = append(keep, line)
		}
		c17Template = strings.Join(keep, "\n")
	}
	return c17Template
}

func snapFitness(s *SnapGenome) float64 {
	h := s.fingerprint()
	return float64(h%100003)/1000.0 + 0.001
}

// coarseFitness is deterministic too, but takes five values only: ties between genetically different organisms are the rule,
// the population record stagnates (delta coding) and every tie-break of the library comes into play
func coarseFitness(s *SnapGenome) float64 {
	return float64(1 + s.structFingerprint()%5)
}

// signedFitness is negative for four organisms in five: C17 puts no condition on the sign of a fitness value, it only has to be
// a deterministic function
func signedFitness(s *SnapGenome) float64 {
	return snapFitness(s) - 80
}

func c17Fitness(sc *EvoScenario, coarse, signed bool, g *genetics.Genome) float64 {
	switch {
	case coarse:
		return coarseFitness(snapGenome(g))
	case signed:
		return signedFitness(snapGenome(g))
	}
	return snapFitness(snapGenome(g))
}

// c17Execute runs the scenario from the seed and returns hash of the population after every epoch
func c17Execute(sc *EvoScenario, libSeed int64) *c17Result {
	return c17ExecuteWith(sc, libSeed, &genetics.SequentialPopulationEpochExecutor{})
}

// c17UsedExecutor returns an executor object that has served another, unrelated population before: a few complete turnovers
// and then one that was cancelled while the species reproduced
func c17UsedExecutor(seed int64) *genetics.SequentialPopulationEpochExecutor {
	ex := &genetics.SequentialPopulationEpochExecutor{}
	g := rand.New(rand.NewSource(seed ^ 0x77))
	rand.Seed(seed ^ 0x4242)
	sc := genScenario(g, false)
	sc.Ctor = ctorSpawn
	sc.RepeatIds, sc.BySpeciesFactor = 0, 0
	sc.Opts.PopSize = 24
	sc.Opts.BabiesStolen = 0
	sc.Opts.CompatThreshold = 0.5
	pop, err := sc.construct()
	if err != nil {
		return ex
	}
	for gen := 0; gen < 4; gen++ {
		for i, org := range pop.Organisms {
			org.Fitness = float64(1 + (i*7+gen)%5)
		}
		ctx, cancel := context.WithCancel(context.Background())
		if gen == 3 {
			var n int32
			genetics.VerifHooks.ReproduceStart = func(*genetics.Species, *genetics.Population, int) {
				if atomic.AddInt32(&n, 1) == 2 {
					cancel()
				}
			}
		}
		err = ex.NextEpoch(neat.NewContext(ctx, sc.Opts), gen, pop)
		genetics.VerifHooks.ReproduceStart = nil
		cancel()
		if err != nil {
			break
		}
	}
	return ex
}

func c17ExecuteWith(sc *EvoScenario, libSeed int64, ex *genetics.SequentialPopulationEpochExecutor) *c17Result {
	res := &c17Result{}
	rand.Seed(libSeed)
	pop, err := sc.construct()
	if err != nil {
		res.errText = "construct: " + err.Error()
		return res
	}
	for _, org := range pop.Organisms {
		if len(org.Genotype.Genes) == 0 {
			res.errText = "gene-less random genome"
			return res
		}
	}
	ctx := neat.NewContext(context.Background(), sc.Opts)
	for gen := 0; gen < sc.Epochs; gen++ {
		for _, org := range pop.Organisms {
			org.Fitness = c17Fitness(sc, sc.coarseFitness, sc.signedFitness, org.Genotype)
		}
		if err = ex.NextEpoch(ctx, gen, pop); err != nil {
			res.errText = fmt.Sprintf("epoch %d: %v", gen, err)
			return res
		}
		res.hashes = append(res.hashes, c17Hash(pop))
		if sc.Ctor == ctorRandom {
			// known finding K1: a gene-less child of mateSinglePoint that was not mutated afterwards joins the population
			// silently and the next epoch would panic in rand.Intn(0); the run ends here (the same way in every repetition)
			for _, org := range pop.Organisms {
				if len(org.Genotype.Genes) == 0 {
					res.errText = fmt.Sprintf("epoch %d: a gene-less organism joined the population (known finding K1)", gen)
					return res
				}
			}
		}
	}
	res.species = len(pop.Species)
	for _, org := range pop.Organisms {
		if snapGenome(org.Genotype).hasHidden() {
			res.hidden = true
		}
	}
	if len(res.hashes) == 0 {
		return res
	}
	res.final = res.hashes[len(res.hashes)-1]
	res.organism = genomeText(pop.Organisms[0].Genotype)
	return res
}

// c17Evaluator is the generation evaluator of the runs that go through Experiment.Execute: the same deterministic fitness,
// the same hash of the population at every generation
type c17Evaluator struct {
	coarse bool
	signed bool
	hashes []string
}

func (e *c17Evaluator) GenerationEvaluate(_ context.Context, pop *genetics.Population, epoch *experiment.Generation) error {
	for _, org := range pop.Organisms {
		org.Fitness = c17Fitness(nil, e.coarse, e.signed, org.Genotype)
	}
	e.hashes = append(e.hashes, c17Hash(pop))
	epoch.FillPopulationStatistics(pop)
	return nil
}

// c17ViaExecute spawns and evolves through the other entry point, Experiment.Execute (one trial, sequential executor, a new
// Experiment value), after seeding the global source
func c17ViaExecute(sc *EvoScenario, libSeed int64) ([]string, string) {
	o := *sc.Opts
	o.NumRuns = 1
	o.NumGenerations = 6
	if sc.Epochs < 6 {
		o.NumGenerations = sc.Epochs
	}
	o.EpochExecutorType = neat.EpochExecutorTypeSequential
	ev := &c17Evaluator{coarse: sc.coarseFitness, signed: sc.signedFitness}
	exp := experiment.Experiment{Id: 0}
	rand.Seed(libSeed)
	err := exp.Execute(neat.NewContext(context.Background(), &o), sc.Start, ev, nil)
	if err != nil {
		return ev.hashes, err.Error()
	}
	return ev.hashes, ""
}

func c17Hash(pop *genetics.Population) string {
	h := newHasher()
	h.i(len(pop.Organisms))
	for _, org := range pop.Organisms {
		s := snapGenome(org.Genotype)
		h.i(s.Id)
		h.u64(s.fingerprint())
		h.i(org.Generation)
	}
	h.i(len(pop.Species))
	for _, sp := range pop.Species {
		h.i(sp.Id)
		h.i(sp.Age)
		h.i(len(sp.Organisms))
		h.i(sp.AgeOfLastImprovement)
		h.u64(fbits(sp.MaxFitnessEver))
		for _, o := range sp.Organisms {
			h.i(o.Genotype.Id)
		}
	}
	st := pop.VerifState()
	h.u64(uint64(st.NextInnovNum))
	h.i(int(st.NextNodeId))
	h.u64(fbits(pop.HighestFitness))
	h.i(pop.EpochsHighestLastChanged)
	h.i(pop.LastSpecies)
	return fmt.Sprintf("%016x", h.sum())
}

var c17Garbage [][]byte

func unrelatedWork(seed int64) {
	// another evolution under a different seed
	g := rand.New(rand.NewSource(seed ^ 0x5eed))
	rand.Seed(seed ^ 0x1234567)
	sc := genScenario(g, false)
	sc.Ctor = ctorSpawn
	sc.Epochs = 5
	sc.Opts.PopSize = 20
	sc.Opts.BabiesStolen = 0
	_ = c17Execute(sc, seed^0x9999)
	// allocations which move the heap around, and a collection
	c17Garbage = nil
	for i := 0; i < 64; i++ {
		c17Garbage = append(c17Garbage, make([]byte, 1<<20))
	}
	c17Garbage = nil
	runtime.GC()
}

// c17Dump is the entry point of the helper process
func c17Dump(tier string, seed int64, idx int) int {
	sc, libSeed := c17Scenario(seed, idx)
	res := c17Execute(sc, libSeed)
	// the hashes of the epochs completed before a failure are part of the outcome too
	fmt.Println("HASHES", strings.Join(res.hashes, " "))
	if res.errText != "" {
		fmt.Println("ERROR", res.errText)
	}
	return 0
}

func firstDiff(a, b []string) int {
	for i := 0; i < len(a) && i < len(b); i++ {
		if a[i] != b[i] {
			return i
		}
	}
	if len(a) != len(b) {
		return min(len(a), len(b))
	}
	return -1
}

func runC17(c *Ctx, idx int) {
	sc, libSeed := c17Scenario(c.Seed, idx)
	var startBefore *SnapGenome
	if sc.Start != nil {
		startBefore = snapGenome(sc.Start)
	}
	first := c17Execute(sc, libSeed)
	detail := func() map[string]interface{} {
		return map[string]interface{}{"scenario": sc.brief(), "library_seed": libSeed}
	}
	// the same inputs once more, this time the very same start genome and options objects (as Experiment.Execute hands one
	// start genome to every trial): a run must not leave anything behind in its inputs
	if sc.Ctor == ctorSpawn && first.errText == "" {
		if d := diffGenomes(startBefore, snapGenome(sc.Start)); d != "" {
			c.Violate("inputs-modified", detail(), "the run modified the start genome it was given: %s", d)
			return
		}
		// ... and at the other log level: the outcome does not depend on process-wide settings that are no input
		lvl := neat.LogLevel
		if lvl == neat.LogLevelDebug {
			neat.LogLevel = neat.LogLevelError
		} else {
			neat.LogLevel = neat.LogLevelDebug
		}
		again := c17Execute(sc, libSeed)
		neat.LogLevel = lvl
		c.Count("runs.same_input_objects", 1)
		if sc.modular {
			c.Count("scenarios.modular_start_genome_with_crossover", 1)
		}
		if sc.genesShuffled {
			c.Count("scenarios.start_genome_genes_out_of_order", 1)
		}
		if again.errText != first.errText {
			c.Violate("in-process/error", detail(), "the first run ended with %q, the run on the same input objects with %q", first.errText, again.errText)
			return
		}
		if d := firstDiff(first.hashes, again.hashes); d >= 0 {
			dd := detail()
			dd["first_run"] = first.hashes
			dd["second_run"] = again.hashes
			c.Violate("in-process/same-inputs", dd, "a second run on the same start genome and options objects diverges from the first one at epoch %d", d)
			return
		}
	}
	if first.errText != "" {
		if first.errText == "gene-less random genome" {
			c.Count("scenarios.skipped_gene_less_random_genome", 1)
			return
		}
		// an epoch failure is C02's matter; here it only has to fail the same way
		c.Count("scenarios.ended_in_error", 1)
	}
	if sc.coarseFitness {
		c.Count("scenarios.fitness_with_ties", 1)
	}
	if sc.signedFitness {
		c.Count("scenarios.fitness_mostly_negative", 1)
	}
	if sc.hugePopulation {
		c.Count("scenarios.population_of_thousands", 1)
	}
	if sc.activatorsFromFile {
		c.Count("scenarios.activation_list_read_from_an_options_file_for_every_run", 1)
	}
	if sc.manySpeciesTies {
		c.Count("scenarios.large_genomes_in_many_species_at_tied_distances", 1)
		c.Count(fmt.Sprintf("scenarios.large_genomes_in_many_species_at_tied_distances.species_at_end_%s", c17Bucket(first.species)), 1)
	}
	if sc.Ctor == ctorRandom {
		c.Count("scenarios.random_population", 1)
	} else {
		c.Count("scenarios.spawned", 1)
	}
	// a by-value copy of the options object that has just been used, with two settings changed, against options built from
	// scratch with the same values: equal settings are equal inputs, whatever the object went through before
	if first.errText == "" {
		tuned := *sc.Opts
		scA := *sc
		scA.Opts = &tuned
		scB, _ := c17Scenario(c.Seed, idx)
		for _, o := range []*neat.Options{scA.Opts, scB.Opts} {
			o.CompatThreshold = sc.Opts.CompatThreshold*0.5 + 0.1
			o.PopSize = sc.Opts.PopSize + 1
		}
		if scA.Ctor == ctorSpawn {
			scA.Start = scB.Start // a start genome of its own as well
		}
		ra, rb := c17Execute(&scA, libSeed), c17Execute(scB, libSeed)
		c.Count("runs.copied_options", 1)
		if ra.errText != rb.errText {
			c.Violate("in-process/error", detail(), "a run on a changed copy of the used options ended with %q, the run on options built anew with the same values with %q", ra.errText, rb.errText)
			return
		}
		if d := firstDiff(ra.hashes, rb.hashes); d >= 0 {
			dd := detail()
			dd["copied_options_run"] = ra.hashes
			dd["fresh_options_run"] = rb.hashes
			c.Violate("in-process/copied-options", dd, "a run on a by-value copy of the used options object (two settings changed) diverges at epoch %d from the run on options built anew with the same values", d)
			return
		}
	}
	// the very options object of the first run, edited in place (an application that tunes its rates between two trials), against
	// options built anew that carry the same values: whatever the library remembered about the object must not show
	if first.errText == "" && !sc.hugePopulation {
		saved := *sc.Opts
		scB, _ := c17Scenario(c.Seed, idx)
		er := rand.New(rand.NewSource(libSeed ^ 0x5eed))
		avg := 0.05 + 0.7*er.Float64()
		thr := sc.Opts.CompatThreshold * (0.6 + 0.8*er.Float64())
		for _, o := range []*neat.Options{sc.Opts, scB.Opts} {
			o.MateMultipointProb, o.MateMultipointAvgProb, o.MateSinglepointProb = 0.2, avg, 0.8-avg
			o.MutateOnlyProb, o.MateOnlyProb = 0.2, 0.3
			o.MutateAddNodeProb, o.MutateAddLinkProb = o.MutateAddLinkProb, o.MutateAddNodeProb
			o.CompatThreshold = thr
			o.WeightMutPower *= 1.5
			o.SurvivalThresh = 0.3 + 0.4*avg
		}
		startB := sc.Start
		if sc.Ctor == ctorSpawn {
			startB = scB.Start
		}
		scA := *sc
		scB.Start = startB
		ra, rb := c17Execute(&scA, libSeed), c17Execute(scB, libSeed)
		*sc.Opts = saved
		c.Count("runs.options_object_edited_in_place", 1)
		if ra.errText != rb.errText {
			c.Violate("in-process/error", detail(), "a run on the used options object edited in place ended with %q, the run on options built anew with the same values with %q", ra.errText, rb.errText)
			return
		}
		if d := firstDiff(ra.hashes, rb.hashes); d >= 0 {
			dd := detail()
			dd["edited_options_run"], dd["fresh_options_run"] = ra.hashes, rb.hashes
			c.Violate("in-process/edited-options", dd, "a run on the used options object with its rates edited in place diverges at epoch %d from the run on options built anew with the same values", d)
			return
		}
	}
	if sc.Ctor == ctorSpawn && first.errText == "" && idx%4 == 2 {
		// the other entry point: Experiment.Execute spawns and evolves by itself; two executions of new Experiment values after
		// the same seeding of the global source
		h1, e1 := c17ViaExecute(sc, libSeed)
		h2, e2 := c17ViaExecute(sc, libSeed)
		c.Count("runs.through_experiment_execute", 2)
		if e1 != e2 {
			c.Violate("in-process/error", detail(), "Experiment.Execute ended with %q, its repetition with %q", e1, e2)
			return
		}
		if d := firstDiff(h1, h2); d >= 0 || len(h1) == 0 {
			dd := detail()
			dd["first_execution"], dd["second_execution"] = h1, h2
			c.Violate("in-process/execute", dd, "two executions of Experiment.Execute (new Experiment values, same start genome and option values, same seed of the global source) diverge at generation %d", d)
			return
		}
	}
	if idx%4 == 1 && first.errText == "" && !sc.hugePopulation {
		// the executor object has served an unrelated population before (its last turnover there was cancelled half way): earlier
		// unrelated work in the process, of which nothing may show
		scU, libSeedU := c17Scenario(c.Seed, idx)
		viaUsed := c17ExecuteWith(scU, libSeedU, c17UsedExecutor(libSeed))
		c.Count("runs.served_by_an_executor_used_before", 1)
		if viaUsed.errText != first.errText {
			c.Violate("in-process/error", detail(), "the first run ended with %q, the run served by an executor object used before with %q", first.errText, viaUsed.errText)
			return
		}
		if d := firstDiff(first.hashes, viaUsed.hashes); d >= 0 {
			dd := detail()
			dd["first_run"], dd["run_with_used_executor"] = first.hashes, viaUsed.hashes
			c.Violate("in-process/used-executor", dd, "a run served by an executor object that had served an unrelated population before (last turnover cancelled) diverges from the first one at epoch %d", d)
			return
		}
	}
	unrelatedWork(libSeed)
	// the scenario object is rebuilt from scratch: nothing is shared with the first run
	sc2, libSeed2 := c17Scenario(c.Seed, idx)
	second := c17Execute(sc2, libSeed2)
	c.Count("runs.in_process", 1)
	c.Eval(len(first.hashes))
	c.Count("epochs.compared", len(first.hashes))
	if first.errText != second.errText {
		c.Violate("in-process/error", detail(), "the first run ended with %q, the repeated run with %q", first.errText, second.errText)
		return
	}
	if d := firstDiff(first.hashes, second.hashes); d >= 0 {
		dd := detail()
		dd["first_run"] = first.hashes
		dd["second_run"] = second.hashes
		c.Violate("in-process", dd, "the repeated run in the same process diverges from the first one at epoch %d", d)
		return
	}
	// separate processes
	self, err := os.Executable()
	if err != nil {
		panic("harness: " + err.Error())
	}
	runProc := func(env ...string) ([]string, string) {
		ctx, cancel := context.WithTimeout(context.Background(), 300*time.Second)
		defer cancel()
		cmd := exec.CommandContext(ctx, self, "c17dump", c.Tier, fmt.Sprint(c.Seed), fmt.Sprint(idx))
		cmd.Env = append(os.Environ(), env...)
		out, err := cmd.Output()
		if err != nil {
			return nil, "helper process failed: " + err.Error()
		}
		var hashes []string
		errText, seen := "", false
		for _, line := range strings.Split(string(out), "\n") {
			line = strings.TrimSpace(line)
			if strings.HasPrefix(line, "HASHES") {
				hashes = strings.Fields(strings.TrimPrefix(line, "HASHES"))
				seen = true
			} else if strings.HasPrefix(line, "ERROR") {
				errText = strings.TrimSpace(strings.TrimPrefix(line, "ERROR"))
			}
		}
		if !seen {
			return nil, "helper process failed: no output"
		}
		return hashes, errText
	}
	p1, e1 := runProc()
	p2, e2 := runProc("GOGC=1", "GOMAXPROCS=1")
	if idx%4 == 0 || sc.Opts.NewLinkTries >= 256 {
		// a third process which is stopped for 6 ms every 300 us (SIGSTOP / SIGCONT): wall-clock time runs twenty times
		// faster for it than CPU time does, so anything decided by elapsed time comes out differently
		p3, e3 := runStuttered(self, c.Tier, c.Seed, idx)
		if strings.HasPrefix(e3, "helper process failed") {
			c.Inconclusive("%s", e3)
			return
		}
		c.Count("runs.cross_process_stuttered", 1)
		if e3 != first.errText {
			c.Violate("cross-process/error", detail(), "the run in this process ended with %q, the run in a process that was stopped and continued all the time with %q", first.errText, e3)
			return
		}
		if d := firstDiff(first.hashes, p3); d >= 0 {
			dd := detail()
			dd["this_process"] = first.hashes
			dd["other_process"] = p3
			c.Violate("cross-process/wall-clock", dd, "the run in a process that was stopped for 6 ms every 300 us (wall-clock time passes, CPU time does not) diverges from this process at epoch %d", d)
			return
		}
	}
	if strings.HasPrefix(e1, "helper process failed") || strings.HasPrefix(e2, "helper process failed") {
		c.Inconclusive("%s %s", e1, e2)
		return
	}
	c.Count("runs.cross_process", 2)
	c.Eval(2 * len(first.hashes))
	for i, p := range [][]string{p1, p2} {
		perr := []string{e1, e2}[i]
		if perr != first.errText {
			c.Violate("cross-process/error", detail(), "the run in this process ended with %q, the run in a separate process with %q", first.errText, perr)
			return
		}
		if d := firstDiff(first.hashes, p); d >= 0 {
			dd := detail()
			dd["this_process"] = first.hashes
			dd["other_process"] = p
			dd["other_process_env"] = []string{"", "GOGC=1 GOMAXPROCS=1"}[i]
			c.Violate("cross-process", dd, "the run in a separate process (%s) diverges from this process at epoch %d", []string{"default environment", "GOGC=1 GOMAXPROCS=1"}[i], d)
			return
		}
	}
	if first.species >= 2 && first.hidden {
		c.Distinct(hashString(first.final))
		if c.WantSample() {
			c.Sample(map[string]interface{}{"scenario": sc.brief(), "final_hash": first.final, "epochs": len(first.hashes), "species_at_end": first.species})
		}
	}
}

// runStuttered runs the helper process under a SIGSTOP / SIGCONT stutter
func runStuttered(self, tier string, seed int64, idx int) ([]string, string) {
	ctx, cancel := context.WithTimeout(context.Background(), 600*time.Second)
	defer cancel()
	cmd := exec.CommandContext(ctx, self, "c17dump", tier, fmt.Sprint(seed), fmt.Sprint(idx))
	var out strings.Builder
	cmd.Stdout = &out
	if err := cmd.Start(); err != nil {
		return nil, "helper process failed: " + err.Error()
	}
	done := make(chan struct{})
	go func() {
		for {
			select {
			case <-done:
				return
			default:
			}
			_ = cmd.Process.Signal(syscall.SIGSTOP)
			time.Sleep(6 * time.Millisecond)
			_ = cmd.Process.Signal(syscall.SIGCONT)
			time.Sleep(300 * time.Microsecond)
		}
	}()
	err := cmd.Wait()
	close(done)
	if err != nil {
		return nil, "helper process failed: " + err.Error()
	}
	var hashes []string
	errText, seen := "", false
	for _, line := range strings.Split(out.String(), "\n") {
		line = strings.TrimSpace(line)
		if strings.HasPrefix(line, "HASHES") {
			hashes = strings.Fields(strings.TrimPrefix(line, "HASHES"))
			seen = true
		} else if strings.HasPrefix(line, "ERROR") {
			errText = strings.TrimSpace(strings.TrimPrefix(line, "ERROR"))
		}
	}
	if !seen {
		return nil, "helper process failed: no output"
	}
	return hashes, errText
}


func c17Bucket(n int) string {
	switch {
	case n < 8:
		return "below_8"
	case n < 20:
		return "8_to_19"
	}
	return "20_and_more"
}
