package main

import (
	"errors"
	"io"

	neatmath "github.com/yaricom/goNEAT/v4/neat/math"
	"github.com/yaricom/goNEAT/v4/neat/network"
)

// C14 - activation depth is the longest path to an output and always terminates.

func init() {
	register(&Prop{
		ID: "C14", Level: "exploration", DesignRef: "DESIGN.md section 4 C14",
		Rule: "one case = 250 (quick) / 1000 (thorough) networks with 1-9 hidden nodes (sparse DAGs of all shapes up to 14 nodes; the same with " +
			"1-4 back edges / self-loops): DAGs - MaxActivationDepth must equal the longest path (in links) ending in an output computed by " +
			"dynamic programming on the harness' description; cyclic - the call returns with 0 <= depth <= node count; caps 0..depth+2 - " +
			"(depth, nil) or (cap, ErrMaximalNetDepthExceeded); after every query all traversal marks are clear and the next uncapped query " +
			"equals the answer of a fresh instance; mixed query sequences on one instance. evaluations = depth queries. A network is " +
			"non-trivial if its depth is >= 3 or it is cyclic; distinct by topology fingerprint. One network in forty is a chain of 30-330 hidden " +
			"neurons with one to six forward shortcuts; every 64th case also queries a bare chain of 1030-1150 hidden neurons.",
		Assumptions: []string{"non-modular networks with at least one hidden node", "sparse graphs of at most 14 nodes, or long chains with a handful of shortcuts (the library's search is exponential on dense DAGs)",
			"non-termination shows as the 64 MB stack limit of the child process or the watchdog"},
		Cases: func(tier string) int {
			if tier == "quick" {
				return 6400
			}
			return 128000
		},
		Run:      runC14,
		Required: []string{"queries.uncapped", "queries.capped_hit", "queries.capped_not_hit", "nets.dag", "nets.dag_with_links_labelled_recurrent", "nets.cyclic", "nets.self_loop", "nets.long_chain", "nets.chain_with_shortcuts_of_dozens_to_hundreds_of_neurons", "queries.print_paths", "sequences.after_cap_hit"},
	})
}

// c14LongChain: a chain of more than a thousand hidden neurons (what a very long run of add-node mutations builds): depth is
// linear to compute and far beyond any small built-in limit
func c14LongChain(c *Ctx) {
	r := c.G
	n := 1030 + r.Intn(120)
	in := network.NewNNode(1, network.InputNeuron)
	out := network.NewNNode(2, network.OutputNeuron)
	all := []*network.NNode{in, out}
	prev := in
	for i := 0; i < n; i++ {
		h := network.NewNNode(3+i, network.HiddenNeuron)
		h.ConnectFrom(prev, 1.0)
		all = append(all, h)
		prev = h
	}
	out.ConnectFrom(prev, 1.0)
	net := network.NewNetwork([]*network.NNode{in}, []*network.NNode{out}, all, 1)
	want := n + 1
	c.Count("nets.long_chain", 1)
	for _, capv := range []int{0, want, want + 5, want - 1} {
		d, err := net.MaxActivationDepthWithCap(capv)
		c.Eval(1)
		detail := map[string]interface{}{"chain_of_hidden_neurons": n, "cap": capv}
		if capv == 0 || capv >= want {
			if err != nil || d != want {
				c.Violate("depth-value", detail, "chain of %d hidden neurons: query with cap %d gives (%d, %v), the longest path has %d links", n, capv, d, err, want)
				return
			}
		} else if !errors.Is(err, network.ErrMaximalNetDepthExceeded) || d != capv {
			c.Violate("depth-capped", detail, "chain of %d hidden neurons: query with cap %d gives (%d, %v), expected (%d, ErrMaximalNetDepthExceeded)", n, capv, d, err, capv)
			return
		}
	}
	if d, err := net.MaxActivationDepth(); err != nil || d != want {
		c.Violate("depth-value", map[string]interface{}{"chain_of_hidden_neurons": n}, "chain of %d hidden neurons: MaxActivationDepth = (%d, %v), expected %d", n, d, err, want)
	}
}

func runC14(c *Ctx, idx int) {
	if idx%64 == 7 {
		c14LongChain(c)
	}
	r := c.G
	n := 250
	if c.Tier == "thorough" {
		n = 1000
	}
	for i := 0; i < n && !c.Violated(); i++ {
		o := netGenOpts{maxIn: 3, maxBias: 1, maxHid: 9, minHid: 1, maxOut: 2, edgeProb: pick(r, 0.05, 0.15, 0.3), weightScale: 1,
			acts: []neatmath.NodeActivationType{neatmath.SigmoidSteepenedActivation}, reachable: r.Intn(4) != 0}
		cyclic := r.Intn(2) == 0
		if cyclic {
			o.backEdges = 1 + r.Intn(4)
		}
		if r.Intn(4) == 0 {
			o.outToOut = 0.5
			o.maxOut = 3
		}
		if r.Intn(3) == 0 {
			// some forward links carry the recurrent label (genes flagged recurrent are expressed so): still no cycle
			o.flagForward = pick(r, 0.1, 0.3, 1.0)
		}
		s := genNet(r, o)
		if i%40 == 7 {
			// dozens to hundreds of neurons: a long chain with a few shortcuts
			s, cyclic = ladderNet(r), false
			c.Count("nets.chain_with_shortcuts_of_dozens_to_hundreds_of_neurons", 1)
		}
		if s.NOut >= 2 && r.Intn(5) == 0 {
			// side branches that lead nowhere: hidden neurons without any way on are fed by outputs (forward links, no cycle; such
			// an output still ends the paths that count)
			var deadEnds []int
			for v := s.sensors(); v < s.sensors()+s.NHid; v++ {
				leaves := false
				for _, e := range s.Edges {
					leaves = leaves || e.From == v
				}
				if !leaves {
					deadEnds = append(deadEnds, v)
				}
			}
			if len(deadEnds) > 0 {
				for k := 0; k < 1+r.Intn(2); k++ {
					out := s.sensors() + s.NHid + r.Intn(s.NOut)
					to := deadEnds[r.Intn(len(deadEnds))]
					dup := false
					for _, e := range s.Edges {
						dup = dup || (e.From == out && e.To == to)
					}
					if !dup {
						s.Edges = append(s.Edges, netEdge{From: out, To: to, W: r.NormFloat64()})
					}
				}
				c.Count("nets.outputs_feeding_dead_ends", 1)
			}
		}
		hasBack, selfLoop, labelled := false, false, false
		for _, e := range s.Edges {
			hasBack = hasBack || e.Back
			selfLoop = selfLoop || e.From == e.To
			labelled = labelled || e.RecFlag
		}
		if labelled && !hasBack {
			c.Count("nets.dag_with_links_labelled_recurrent", 1)
		}
		viaGenesis := r.Intn(3) == 0
		emptyModular := !viaGenesis && r.Intn(8) == 0
		if emptyModular {
			c.Count("nets.modular_constructor_without_modules", 1)
		}
		build := func() *network.Network {
			if emptyModular {
				// what expressing a genome whose modules are all switched off builds: the modular constructor with an empty
				// list of control nodes - a network without modules all the same
				return s.buildModular(nil)
			}
			if viaGenesis {
				net, err := s.genome().Genesis(1)
				if err != nil {
					panic("harness: " + err.Error())
				}
				return net
			}
			return s.build()
		}
		detail := func() map[string]interface{} {
			return map[string]interface{}{"net": s.full(), "via_genesis": viaGenesis}
		}
		marksClear := func(net *network.Network, after string) bool {
			for _, nd := range net.BaseNodes() {
				if nd.VerifState().Visited {
					d := detail()
					d["after"] = after
					c.Violate("marks-left", d, "node %d keeps its traversal mark after %s", nd.Id, after)
					return false
				}
			}
			return true
		}
		net := build()
		depth, err := net.MaxActivationDepth()
		c.Eval(1)
		c.Count("queries.uncapped", 1)
		if err != nil {
			c.Violate("depth-error", detail(), "MaxActivationDepth failed: %v", err)
			return
		}
		if !marksClear(net, "an uncapped query") {
			return
		}
		L, _ := s.longest()
		if !hasBack {
			c.Count("nets.dag", 1)
			if depth != L {
				d := detail()
				d["longest_path"] = L
				c.Violate("depth-value", d, "MaxActivationDepth = %d, the longest path ending in an output has %d links", depth, L)
				return
			}
		} else {
			c.Count("nets.cyclic", 1)
			if selfLoop {
				c.Count("nets.self_loop", 1)
			}
			if depth < 0 || depth > s.total() {
				c.Violate("depth-range", detail(), "MaxActivationDepth = %d on a cyclic network of %d nodes", depth, s.total())
				return
			}
		}
		// a mixed sequence of capped / uncapped queries on the same instance
		hitBefore := false
		for q := 0; q < 4; q++ {
			capv := r.Intn(depth + 3)
			if r.Intn(4) == 0 {
				capv = 0
			}
			d2, err2 := net.MaxActivationDepthWithCap(capv)
			c.Eval(1)
			dd := func() map[string]interface{} {
				x := detail()
				x["cap"] = capv
				x["uncapped_depth"] = depth
				return x
			}
			switch {
			case capv <= 0 || depth <= capv:
				if capv > 0 {
					c.Count("queries.capped_not_hit", 1)
				} else {
					c.Count("queries.uncapped", 1)
				}
				if err2 != nil || d2 != depth {
					if hitBefore {
						c.Violate("depth-after-cap", dd(), "query with cap %d after a capped query that hit its cap gives (%d, %v), a fresh network gives (%d, nil)", capv, d2, err2, depth)
					} else {
						c.Violate("depth-capped", dd(), "query with cap %d gives (%d, %v), expected (%d, nil)", capv, d2, err2, depth)
					}
					return
				}
				if hitBefore {
					c.Count("sequences.after_cap_hit", 1)
				}
			default:
				c.Count("queries.capped_hit", 1)
				if !errors.Is(err2, network.ErrMaximalNetDepthExceeded) || d2 != capv {
					c.Violate("depth-capped", dd(), "query with cap %d on a network of depth %d gives (%d, %v), expected (%d, ErrMaximalNetDepthExceeded)", capv, depth, d2, err2, capv)
					return
				}
				hitBefore = true
			}
			if !marksClear(net, "a query with cap "+itoa(capv)) {
				return
			}
		}
		// printing the activation paths is a query too: it must leave no marks behind either
		if r.Intn(2) == 0 {
			if perr := network.PrintAllActivationDepthPaths(net, io.Discard); perr != nil {
				c.Violate("depth-error", detail(), "PrintAllActivationDepthPaths failed: %v", perr)
				return
			}
			c.Count("queries.print_paths", 1)
			if !marksClear(net, "PrintAllActivationDepthPaths") {
				return
			}
		}
		if r.Intn(2) == 0 {
			// the recurrence test the add-link mutation runs on a phenotype is a read-only traversal as well
			nodes := net.BaseNodes()
			for k := 0; k < 1+r.Intn(3); k++ {
				count := 0
				_ = net.IsRecurrent(nodes[r.Intn(len(nodes))], nodes[r.Intn(len(nodes))], &count, len(nodes)*len(nodes))
			}
			c.Count("queries.is_recurrent_in_between", 1)
			if !marksClear(net, "Network.IsRecurrent") {
				return
			}
		}
		// any later query gives the same answer as on a fresh network
		again, err3 := net.MaxActivationDepth()
		freshDepth, err4 := build().MaxActivationDepth()
		c.Eval(2)
		if err3 != nil || err4 != nil || again != freshDepth {
			c.Violate("depth-after-cap", detail(), "after the query sequence the network answers (%d, %v), a fresh one (%d, %v)", again, err3, freshDepth, err4)
			return
		}
		if depth >= 3 || hasBack {
			h := newHasher()
			h.i(s.NIn)
			h.i(s.NBias)
			h.i(s.NHid)
			h.i(s.NOut)
			for _, e := range s.Edges {
				h.i(e.From)
				h.i(e.To)
			}
			c.Distinct(h.sum())
			if c.WantSample() && depth >= 3 {
				c.Sample(map[string]interface{}{"net": s.brief(), "depth": depth, "cyclic": hasBack})
			}
		}
	}
}

func itoa(i int) string {
	if i == 0 {
		return "0"
	}
	neg := i < 0
	if neg {
		i = -i
	}
	var b []byte
	for i > 0 {
		b = append([]byte{byte('0' + i%10)}, b...)
		i /= 10
	}
	if neg {
		b = append([]byte{'-'}, b...)
	}
	return string(b)
}
