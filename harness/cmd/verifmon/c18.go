package main

import (
	"fmt"
	"math"
	"math/rand"
	"runtime"
	"sort"
	"strings"
	"sync"

	neatmath "github.com/yaricom/goNEAT/v4/neat/math"
	"github.com/yaricom/goNEAT/v4/neat/network"
)

// C18 - activation functions match their definitions, ranges and names.

type refAct struct {
	typ      neatmath.NodeActivationType
	name     string
	f        func(x float64) float64
	lo, hi   float64
	monotone bool
}

func sigm(k, shift float64) func(float64) float64 {
	return func(x float64) float64 { return 1 / (1 + math.Exp(-(k*x + shift))) }
}

// the independent closed forms written from the documented formulas
var refActs = []refAct{
	{neatmath.SigmoidPlainActivation, "SigmoidPlainActivation", sigm(1, 0), 0, 1, true},
	{neatmath.SigmoidReducedActivation, "SigmoidReducedActivation", sigm(0.5, 0), 0, 1, true},
	{neatmath.SigmoidBipolarActivation, "SigmoidBipolarActivation", func(x float64) float64 { return 2/(1+math.Exp(-4.924273*x)) - 1 }, -1, 1, true},
	{neatmath.SigmoidSteepenedActivation, "SigmoidSteepenedActivation", sigm(4.924273, 0), 0, 1, true},
	{neatmath.SigmoidApproximationActivation, "SigmoidApproximationActivation", func(x float64) float64 {
		switch {
		case x < -4:
			return 0
		case x < 0:
			return (x + 4) * (x + 4) / 32
		case x < 4:
			return 1 - (x-4)*(x-4)/32
		}
		return 1
	}, 0, 1, true},
	{neatmath.SigmoidSteepenedApproximationActivation, "SigmoidSteepenedApproximationActivation", func(x float64) float64 {
		switch {
		case x < -1:
			return 0
		case x < 0:
			return (x + 1) * (x + 1) / 2
		case x < 1:
			return 1 - (x-1)*(x-1)/2
		}
		return 1
	}, 0, 1, true},
	{neatmath.SigmoidInverseAbsoluteActivation, "SigmoidInverseAbsoluteActivation", func(x float64) float64 { return 0.5 + 0.5*x/(1+math.Abs(x)) }, 0, 1, true},
	{neatmath.SigmoidLeftShiftedActivation, "SigmoidLeftShiftedActivation", sigm(1, 2.4621365), 0, 1, true},
	{neatmath.SigmoidLeftShiftedSteepenedActivation, "SigmoidLeftShiftedSteepenedActivation", sigm(4.924273, 2.4621365), 0, 1, true},
	{neatmath.SigmoidRightShiftedSteepenedActivation, "SigmoidRightShiftedSteepenedActivation", sigm(4.924273, -2.4621365), 0, 1, true},
	{neatmath.TanhActivation, "TanhActivation", func(x float64) float64 { return math.Tanh(0.9 * x) }, -1, 1, true},
	{neatmath.GaussianBipolarActivation, "GaussianBipolarActivation", func(x float64) float64 { return 2*math.Exp(-(2.5*x)*(2.5*x)) - 1 }, -1, 1, false},
	{neatmath.GaussianActivation, "GaussianActivation", func(x float64) float64 { return math.Exp(-x * x) }, 0, 1, false},
	{neatmath.LinearActivation, "LinearActivation", func(x float64) float64 { return x }, math.Inf(-1), math.Inf(1), true},
	{neatmath.LinearAbsActivation, "LinearAbsActivation", math.Abs, 0, math.Inf(1), false},
	{neatmath.LinearClippedActivation, "LinearClippedActivation", func(x float64) float64 { return math.Max(-1, math.Min(1, x)) }, -1, 1, true},
	{neatmath.NullActivation, "NullActivation", func(x float64) float64 { return 0 }, 0, 0, false},
	{neatmath.SignActivation, "SignActivation", func(x float64) float64 {
		if x > 0 {
			return 1
		} else if x < 0 {
			return -1
		}
		return 0
	}, -1, 1, false},
	{neatmath.SineActivation, "SineActivation", func(x float64) float64 { return math.Sin(2 * x) }, -1, 1, false},
	{neatmath.StepActivation, "StepActivation", func(x float64) float64 {
		if x < 0 {
			return 0
		}
		return 1
	}, 0, 1, true},
}

var refModuleNames = map[neatmath.NodeActivationType]string{
	neatmath.MultiplyModuleActivation: "MultiplyModuleActivation",
	neatmath.MaxModuleActivation:      "MaxModuleActivation",
	neatmath.MinModuleActivation:      "MinModuleActivation",
}

var refActByType = func() map[neatmath.NodeActivationType]*refAct {
	m := map[neatmath.NodeActivationType]*refAct{}
	for i := range refActs {
		m[refActs[i].typ] = &refActs[i]
	}
	return m
}()

// refActivation is the reference activation used by the network oracles (C12)
func refActivation(t neatmath.NodeActivationType, x float64) float64 {
	if ra, ok := refActByType[t]; ok {
		return ra.f(x)
	}
	panic(fmt.Sprintf("harness: no reference for activation type %d", t))
}

const c18Batches = 6 // input batches per scalar function

func init() {
	register(&Prop{
		ID: "C18", Level: "exploration", DesignRef: "DESIGN.md section 4 C18",
		Rule: "case 0: the registry, enumerated over all 256 type codes and a corpus of names (exhaustive over codes), then 200 factories of their own extended by Register / RegisterModule in PRNG-chosen orders with look-ups in between; cases 1..: one scalar " +
			"function x one sorted batch of inputs {0, breakpoints +-1, +-4, +-2.4621365, +-0.5 with 0..3 ulp offsets, +-2^k for k=-60..996, " +
			"+-1e300, log-uniform random magnitudes in 1e-20..1e20 and 1e-300..1e300}: value against the independent closed form (1e-12), " +
			"finiteness, documented range, monotonicity (4 ulp tolerance); last cases: module activations on vectors of length 1-8 with " +
			"magnitudes up to 1e300 incl. all-negative vectors below -1e19. evaluations = function applications and registry queries. " +
			"An input is non-trivial if the function value is strictly inside its range; distinct by (type, input bits).",
		Assumptions: []string{"inputs finite with |x| <= 1e300; at negative zero every function but the step function (which the library defines by the sign bit) must give its value at zero", "math.Exp / Tanh / Sin of the Go runtime are trusted"},
		Cases: func(tier string) int {
			return 1 + len(refActs)*c18Batches + 8
		},
		Run:      runC18,
		Required: []string{"scalar.concurrent_evaluations", "registry.extensions", "registry.codes", "scalar.evaluations", "module.evaluations", "module.all_negative_below_minint64", "scalar.at_breakpoint", "module.results_held_across_a_later_activation"},
	})
}

func c18Inputs(r *rand.Rand, n int) []float64 {
	xs := []float64{0}
	for _, b := range []float64{1, 4, 2.4621365, 0.5, 2, 0.25} {
		for _, sgn := range []float64{1, -1} {
			v := sgn * b
			xs = append(xs, v)
			u, d := v, v
			for k := 0; k < 3; k++ {
				u = math.Nextafter(u, math.Inf(1))
				d = math.Nextafter(d, math.Inf(-1))
				xs = append(xs, u, d)
			}
		}
	}
	for k := -60; k <= 996; k += 1 + r.Intn(4) {
		xs = append(xs, math.Ldexp(1, k), -math.Ldexp(1, k))
	}
	xs = append(xs, 1e300, -1e300, math.SmallestNonzeroFloat64, -math.SmallestNonzeroFloat64)
	for i := 0; i < n; i++ {
		var m float64
		switch r.Intn(4) {
		case 0:
			m = math.Pow(10, r.Float64()*600-300)
		case 1:
			m = r.Float64() * 6 // the interesting region of all functions
		default:
			m = math.Pow(10, r.Float64()*40-20)
		}
		if m > 1e300 {
			m = 1e300
		}
		if r.Intn(2) == 0 {
			m = -m
		}
		xs = append(xs, m)
	}
	sort.Float64s(xs)
	return xs
}

func runC18(c *Ctx, idx int) {
	if idx == 0 {
		c18Registry(c)
		if !c.Violated() {
			c18RegistryExtension(c)
		}
		if !c.Violated() {
			// what was registered on factories of their own must not have reached the global one
			c18Registry(c)
		}
		if !c.Violated() {
			c18Concurrent(c)
		}
		return
	}
	if idx%8 == 3 {
		// (also beside the other cases, in several processes: whether accesses collide is a matter of the schedule)
		defer func() {
			if !c.Violated() {
				c18Concurrent(c)
			}
		}()
	}
	scalarCases := len(refActs) * c18Batches
	n := 60000
	if c.Tier == "thorough" {
		n = 1200000
	}
	if idx <= scalarCases {
		ra := &refActs[(idx-1)/c18Batches]
		c18Scalar(c, ra, c18Inputs(c.G, n))
		return
	}
	c18Modules(c, n/4)
}

func c18Scalar(c *Ctx, ra *refAct, xs []float64) {
	factory := neatmath.NodeActivators
	// the function is addressed by its name (as genome files do) and by its type code
	byName, err := factory.ActivationTypeFromName(ra.name)
	if err != nil {
		c.Violate("name-unknown", map[string]interface{}{"key": ra.name}, "activation name %s is not registered: %v", ra.name, err)
		return
	}
	if byName != ra.typ {
		c.Violate("name-code", map[string]interface{}{"key": ra.name}, "name %s maps to type code %d, the exported constant is %d", ra.name, byName, ra.typ)
		return
	}
	prev := math.Inf(-1)
	prevX := math.Inf(-1)
	sampled := false
	for _, x := range xs {
		if x == 0 {
			x = 0 // +0 only
		}
		y, err := factory.ActivateByType(x, nil, ra.typ)
		c.Eval(1)
		c.Count("scalar.evaluations", 1)
		d := func() map[string]interface{} {
			return map[string]interface{}{"key": ra.name, "x": fmt.Sprintf("%v", x), "x_bits": fbits(x), "y": fmt.Sprintf("%v", y)}
		}
		if err != nil {
			c.Violate("activate-error", d(), "%s(%v) failed: %v", ra.name, x, err)
			return
		}
		w := ra.f(x)
		if math.IsNaN(y) || math.IsInf(y, 0) {
			c.Violate("non-finite", d(), "%s(%v) = %v is not finite", ra.name, x, y)
			return
		}
		if y < ra.lo || y > ra.hi {
			c.Violate("range", d(), "%s(%v) = %v is outside the documented range [%v, %v]", ra.name, x, y, ra.lo, ra.hi)
			return
		}
		if math.Abs(y-w) > 1e-12*math.Max(math.Abs(w), math.Abs(y))+1e-18 {
			c.Violate("value", d(), "%s(%v) = %v, the closed form gives %v", ra.name, x, y, w)
			return
		}
		if ra.monotone && y < prev {
			ulp := math.Nextafter(math.Max(1, math.Abs(prev)), math.Inf(1)) - math.Max(1, math.Abs(prev))
			if prev-y > 4*ulp {
				c.Violate("monotone", d(), "%s is not monotone: f(%v) = %v > f(%v) = %v", ra.name, prevX, prev, x, y)
				return
			}
			c.Count("scalar.monotone_rounding_wobble", 1)
		}
		prev, prevX = y, x
		ax := math.Abs(x)
		if ax == 1 || ax == 4 {
			c.Count("scalar.at_breakpoint", 1)
		}
		if x == 0 && ra.typ != neatmath.StepActivation {
			// the other zero: -0 is zero (the step function alone is defined by the sign bit in the library and is left out)
			nz := math.Copysign(0, -1)
			yz, zerr := factory.ActivateByType(nz, nil, ra.typ)
			c.Eval(1)
			c.Count("scalar.at_negative_zero", 1)
			if zerr != nil || math.IsNaN(yz) || math.Abs(yz-w) > 1e-12*math.Max(math.Abs(w), math.Abs(yz))+1e-18 {
				dz := d()
				dz["x"] = "-0"
				c.Violate("value", dz, "%s(-0) = %v (%v), the closed form gives %v at zero", ra.name, yz, zerr, w)
				return
			}
		}
		if y > ra.lo && y < ra.hi {
			h := newHasher()
			h.i(int(ra.typ))
			h.u64(fbits(x))
			c.Distinct(h.sum())
			if !sampled && c.WantSample() && ax > 0.1 && ax < 3 {
				sampled = true
				c.Sample(map[string]interface{}{"function": ra.name, "x": x, "y": y, "closed_form": w})
			}
		}
	}
}

type c18Held struct {
	out  []float64
	want float64
	name string
}

func c18Modules(c *Ctx, n int) {
	r := c.G
	factory := neatmath.NodeActivators
	var held []c18Held
	for i := 0; i < n; i++ {
		k := 1 + r.Intn(8)
		if r.Intn(200) == 0 {
			k = pick(r, 9, 16, 17, 64, 255, 256, 257, 1000, 5000) // a module with many inputs
			c.Count("module.vectors_of_9_to_5000_inputs", 1)
		}
		v := make([]float64, k)
		mode := r.Intn(5)
		for j := range v {
			switch mode {
			case 0: // all negative below -1e19
				v[j] = -math.Pow(10, 19+r.Float64()*281)
			case 1:
				v[j] = r.NormFloat64()
			case 2:
				v[j] = math.Pow(10, r.Float64()*600-300)
				if r.Intn(2) == 0 {
					v[j] = -v[j]
				}
			case 3: // all large positive
				v[j] = math.Pow(10, 19+r.Float64()*281)
			default:
				v[j] = float64(r.Intn(7) - 3)
			}
		}
		if mode == 0 {
			c.Count("module.all_negative_below_minint64", 1)
		}
		in := make([]float64, k)
		copy(in, v)
		prod, mx, mn := 1.0, math.Inf(-1), math.Inf(1)
		for _, x := range v {
			prod *= x
			if x > mx {
				mx = x
			}
			if x < mn {
				mn = x
			}
		}
		for typ, want := range map[neatmath.NodeActivationType]float64{neatmath.MultiplyModuleActivation: prod, neatmath.MaxModuleActivation: mx, neatmath.MinModuleActivation: mn} {
			out, err := factory.ActivateModuleByType(in, nil, typ)
			c.Eval(1)
			c.Count("module.evaluations", 1)
			name := refModuleNames[typ]
			d := map[string]interface{}{"key": name, "inputs": fmt.Sprint(v)}
			// results a caller still holds: what an earlier activation returned is a value of its own, later activations (of
			// this or another module type) must not write into it
			for _, h := range held {
				c.Count("module.results_held_across_a_later_activation", 1)
				if len(h.out) != 1 || (fbits(h.out[0]) != fbits(h.want) && !(math.IsNaN(h.out[0]) && math.IsNaN(h.want))) {
					c.Violate("module-result-overwritten", map[string]interface{}{"key": h.name + "/held", "inputs": fmt.Sprint(v)},
						"the result %s returned earlier (%v) reads %v after a later %s activation", h.name, h.want, h.out, name)
					return
				}
			}
			if err == nil && len(out) == 1 {
				held = append(held, c18Held{out, want, name})
				if len(held) > 4 {
					held = held[1:]
				}
			}
			if err != nil {
				c.Violate("module-error", d, "%s failed: %v", name, err)
				return
			}
			if len(out) != 1 {
				c.Violate("module-arity", d, "%s returned %d values", name, len(out))
				return
			}
			if fbits(out[0]) != fbits(want) && !(math.IsNaN(out[0]) && math.IsNaN(want)) {
				c.Violate("module-value", d, "%s(%v) = %v, expected %v", name, v, out[0], want)
				return
			}
			if !vecBitsEqual(in, v) {
				c.Violate("module-mutates-input", d, "%s modified its input vector", name)
				return
			}
			// the same through the network package: a control node whose input nodes carry these values (modules of changing
			// input counts follow each other)
			if i%3 == 0 {
				cn := network.NewNNode(1000, network.HiddenNeuron)
				cn.ActivationType = typ
				for j, x := range v {
					src := network.NewNNode(j+1, network.InputNeuron)
					src.SensorLoad(x)
					cn.Incoming = append(cn.Incoming, network.NewLink(1.0, src, cn, false))
				}
				dst := network.NewNNode(500, network.HiddenNeuron)
				cn.Outgoing = append(cn.Outgoing, network.NewLink(1.0, cn, dst, false))
				c.Count("module.through_control_node", 1)
				if err := network.ActivateModule(cn, factory); err != nil {
					c.Violate("module-error", d, "ActivateModule with %s failed: %v", name, err)
					return
				}
				if fbits(dst.Activation) != fbits(want) && !(math.IsNaN(dst.Activation) && math.IsNaN(want)) {
					c.Violate("module-value", d, "a control node with %s over the inputs %v writes %v to its output node, expected %v", name, v, dst.Activation, want)
					return
				}
			}
			h := newHasher()
			h.i(int(typ))
			for _, x := range v {
				h.u64(fbits(x))
			}
			c.Distinct(h.sum())
		}
		if i == 0 && c.WantSample() {
			c.Sample(map[string]interface{}{"module_inputs": v, "product": prod, "max": mx, "min": mn})
		}
	}
}

func c18Registry(c *Ctx) {
	factory := neatmath.NodeActivators
	names := map[string]int{}
	registered := 0
	for code := 0; code < 256; code++ {
		t := neatmath.NodeActivationType(code)
		c.Eval(1)
		c.Count("registry.codes", 1)
		name, err := factory.ActivationNameFromType(t)
		_, isScalar := refActByType[t]
		_, isModule := refModuleNames[t]
		d := map[string]interface{}{"key": fmt.Sprintf("code-%d", code)}
		if isScalar || isModule {
			if err != nil {
				c.Violate("registry-missing", d, "type code %d is not registered: %v", code, err)
				return
			}
			registered++
			want := refModuleNames[t]
			if isScalar {
				want = refActByType[t].name
			}
			if name != want {
				c.Violate("registry-name", d, "type code %d is named %q, expected %q", code, name, want)
				return
			}
			if prev, dup := names[name]; dup {
				c.Violate("registry-dup-name", d, "name %q is used by codes %d and %d", name, prev, code)
				return
			}
			names[name] = code
			back, err := factory.ActivationTypeFromName(name)
			if err != nil || back != t {
				c.Violate("registry-roundtrip", d, "TypeFromName(NameFromType(%d)) = %d, %v", code, back, err)
				return
			}
			// scalar codes are rejected by the module activator and vice versa
			_, errS := factory.ActivateByType(0.5, nil, t)
			_, errM := factory.ActivateModuleByType([]float64{0.5, 2}, nil, t)
			if isScalar && (errS != nil || errM == nil) {
				c.Violate("registry-kind", d, "scalar type %s: ActivateByType error %v, ActivateModuleByType error %v", name, errS, errM)
				return
			}
			if isModule && (errS == nil || errM != nil) {
				c.Violate("registry-kind", d, "module type %s: ActivateByType error %v, ActivateModuleByType error %v", name, errS, errM)
				return
			}
		} else {
			if err == nil {
				c.Violate("registry-extra", d, "unknown type code %d has name %q", code, name)
				return
			}
			if v, err := factory.ActivateByType(1, nil, t); err == nil {
				c.Violate("unknown-activates", d, "ActivateByType with unknown type code %d returned value %v instead of an error", code, v)
				return
			}
			if v, err := factory.ActivateModuleByType([]float64{1}, nil, t); err == nil {
				c.Violate("unknown-activates", d, "ActivateModuleByType with unknown type code %d returned %v instead of an error", code, v)
				return
			}
		}
		h := newHasher()
		h.i(code)
		c.Distinct(h.sum())
	}
	if registered != len(refActs)+len(refModuleNames) {
		c.Violate("registry-count", nil, "%d type codes are registered, expected %d", registered, len(refActs)+len(refModuleNames))
		return
	}
	for _, bad := range []string{"", "nope", "sigmoidplainactivation", "SigmoidPlainActivation ", "TanhActivation2", "0", "NullActivation\n"} {
		c.Eval(1)
		if t, err := factory.ActivationTypeFromName(bad); err == nil {
			c.Violate("unknown-name", map[string]interface{}{"key": bad}, "unknown name %q resolved to type %d instead of an error", bad, t)
			return
		}
	}
	// a systematic corpus of strings: whatever is not one of the registered names, letter for letter, must be refused, and a
	// string that is accepted must be the name of the code it resolves to (names and codes map one-to-one)
	for _, s := range c18NameCorpus(names) {
		c.Eval(1)
		t, err := factory.ActivationTypeFromName(s)
		code, isName := names[s]
		switch {
		case isName && (err != nil || int(t) != code):
			c.Violate("registry-roundtrip", map[string]interface{}{"key": s}, "registered name %q resolves to (%d, %v), its code is %d", s, t, err, code)
			return
		case !isName && err == nil:
			c.Violate("unknown-name", map[string]interface{}{"key": s}, "unknown name %q resolved to type %d instead of an error", s, t)
			return
		}
		c.Count("registry.corpus_strings", 1)
	}
	c.Sample(map[string]interface{}{"registered_codes": registered, "codes_enumerated": 256, "names": len(names)})
}

// c18RegistryExtension registers further activators on factories of their own (never the global one) in PRNG-chosen
// orders, with look-ups in between: after every step names and type codes must map one-to-one in both directions for
// everything registered so far, and what is not registered must yield an error.
func c18RegistryExtension(c *Ctx) {
	r := c.G
	for round := 0; round < 200 && !c.Violated(); round++ {
		f := neatmath.NewNodeActivatorsFactory()
		known := map[neatmath.NodeActivationType]string{}
		kinds := map[neatmath.NodeActivationType]bool{} // true - module
		for t, ra := range refActByType {
			known[t] = ra.name
		}
		for t, n := range refModuleNames {
			known[t] = n
			kinds[t] = true
		}
		verify := func(after string) bool {
			for t, name := range known {
				c.Eval(2)
				got, err := f.ActivationNameFromType(t)
				back, err2 := f.ActivationTypeFromName(name)
				if err != nil || got != name || err2 != nil || back != t {
					c.Violate("registry-extension", map[string]interface{}{"key": "extension", "after": after},
						"after %s: code %d -> (%q, %v), name %q -> (%d, %v): names and codes do not map one-to-one", after, t, got, err, name, back, err2)
					return false
				}
				vS, errS := f.ActivateByType(0.5, nil, t)
				_, errM := f.ActivateModuleByType([]float64{0.5, 2}, nil, t)
				if !kinds[t] && errS == nil {
					// the network package activates a neuron through the factory it is handed: the same function, the same answer
					nd := network.NewNNode(1, network.HiddenNeuron)
					nd.ActivationType = t
					nd.ActivationSum = 0.5
					if aerr := network.ActivateNode(nd, f); aerr != nil || nd.Activation != vS && !(math.IsNaN(vS) && math.IsNaN(nd.Activation)) {
						c.Violate("registry-extension", map[string]interface{}{"key": "extension", "after": after},
							"after %s: network.ActivateNode with this factory gives (%v, %v) for %q, the factory itself %v", after, nd.Activation, aerr, name, vS)
						return false
					}
					c.Count("registry.node_activated_through_own_factory", 1)
				}
				if kinds[t] && (errS == nil || errM != nil) || !kinds[t] && (errS != nil || errM == nil) {
					c.Violate("registry-extension", map[string]interface{}{"key": "extension", "after": after}, "after %s: %q answers as the wrong kind of activator (%v / %v)", after, name, errS, errM)
					return false
				}
			}
			for _, bad := range []string{"NoSuchActivation", "", "sigmoidplainactivation"} {
				if _, err := f.ActivationTypeFromName(bad); err == nil {
					c.Violate("registry-extension", map[string]interface{}{"key": "extension", "after": after}, "after %s: unknown name %q resolves to a type", after, bad)
					return false
				}
			}
			return true
		}
		if r.Intn(2) == 0 && !verify("construction") {
			return
		}
		next := neatmath.NodeActivationType(60 + r.Intn(20))
		for step := 0; step < 1+r.Intn(5); step++ {
			name := fmt.Sprintf("Custom%dActivation", next)
			what := ""
			if r.Intn(4) == 0 {
				// a registration repeated for a code that is known already, same name (an init function that runs twice)
				for t, nm := range known {
					if !kinds[t] {
						f.Register(t, func(x float64, _ []float64) float64 { return x }, nm)
						what = "a second Register(" + nm + ") of the same code and name"
						break
					}
				}
				c.Count("registry.extensions", 1)
				if !verify(what) {
					return
				}
				continue
			}
			if r.Intn(2) == 0 {
				f.Register(next, func(x float64, _ []float64) float64 { return x * 2 }, name)
				what = "Register(" + name + ")"
			} else {
				f.RegisterModule(next, func(in []float64, _ []float64) []float64 { return []float64{float64(len(in))} }, name)
				kinds[next] = true
				what = "RegisterModule(" + name + ")"
			}
			known[next] = name
			next++
			c.Count("registry.extensions", 1)
			// sometimes two registrations follow each other without a look-up in between
			if r.Intn(3) != 0 && !verify(what) {
				return
			}
		}
		if !verify("the last registration") {
			return
		}
	}
}

// c18Concurrent: several goroutines activate different types through the shared global factory at once (the parallel
// evaluators of the examples do): every call still returns the value of its own function
func c18Concurrent(c *Ctx) {
	factory := neatmath.NodeActivators
	types := []neatmath.NodeActivationType{neatmath.SigmoidPlainActivation, neatmath.TanhActivation, neatmath.GaussianActivation, neatmath.LinearActivation,
		neatmath.SineActivation, neatmath.SigmoidBipolarActivation, neatmath.LinearAbsActivation, neatmath.StepActivation}
	prev := runtime.GOMAXPROCS(8)
	defer runtime.GOMAXPROCS(prev)
	var wg sync.WaitGroup
	bad := make([]string, len(types))
	start := make(chan struct{})
	const perGoroutine = 150000
	for gi, t := range types {
		wg.Add(1)
		go func(gi int, t neatmath.NodeActivationType) {
			defer wg.Done()
			<-start // all goroutines begin together
			x := 0.1 + float64(gi)*0.37
			for k := 0; k < perGoroutine; k++ {
				xx := x + float64(k%97)*0.01
				tt := t
				if k%3 == 2 {
					tt = types[(gi+1+k%5)%len(types)] // (a network activates neurons of different types in turn)
				}
				y, err := factory.ActivateByType(xx, nil, tt)
				w := refActivation(tt, xx)
				if err != nil || math.Abs(y-w) > 1e-12*math.Max(math.Abs(w), math.Abs(y))+1e-18 {
					bad[gi] = fmt.Sprintf("type %d at %v: got %v (%v), the closed form gives %v", tt, xx, y, err, w)
					return
				}
			}
		}(gi, t)
	}
	close(start)
	wg.Wait()
	c.Eval(len(types) * perGoroutine)
	c.Count("scalar.concurrent_evaluations", len(types)*perGoroutine)
	for _, b := range bad {
		if b != "" {
			c.Violate("concurrent-value", map[string]interface{}{"key": "concurrent"}, "while %d goroutines activated different types through the shared factory: %s", len(types), b)
			return
		}
	}
}

// c18NameCorpus lists strings around the registered names and around the type codes: numerals in several notations (the
// codes themselves, codes plus multiples of 2^8, 2^16, 2^32, negative, padded, signed, hexadecimal, fractional), every proper
// prefix and suffix of every name, every name with one character deleted, doubled or changed in case, names with white space or
// separators around them, and pairs of names joined.
func c18NameCorpus(names map[string]int) []string {
	var out []string
	for i := -300; i <= 1300; i++ {
		out = append(out, fmt.Sprint(i))
	}
	for _, base := range []int64{1 << 8, 1 << 16, 1 << 24, 1 << 31, 1 << 32, 1 << 40, 1 << 62} {
		for k := int64(-2); k < 40; k++ {
			out = append(out, fmt.Sprint(base+k), fmt.Sprint(-base+k), fmt.Sprint(2*base+k))
		}
	}
	for k := 0; k < 40; k++ {
		out = append(out, fmt.Sprintf("%02d", k), fmt.Sprintf("%03d", k), fmt.Sprintf("+%d", k), fmt.Sprintf(" %d", k), fmt.Sprintf("%d ", k),
			fmt.Sprintf("0x%x", k), fmt.Sprintf("0X%X", k), fmt.Sprintf("%#o", k), fmt.Sprintf("0b%b", k), fmt.Sprintf("%d.0", k), fmt.Sprintf("%de0", k),
			fmt.Sprintf("18446744073709551%03d", 616+k), fmt.Sprintf("%d_", k), fmt.Sprintf("#%d", k))
	}
	var sorted []string
	for n := range names {
		sorted = append(sorted, n)
	}
	sort.Strings(sorted)
	for i, n := range sorted {
		for k := 0; k < len(n); k++ {
			out = append(out, n[:k], n[k+1:], n[:k]+n[k+1:], n[:k]+strings.ToUpper(n[k:k+1])+n[k+1:], n[:k]+strings.ToLower(n[k:k+1])+n[k+1:], n[:k]+n[k:k+1]+n[k:])
		}
		out = append(out, strings.ToLower(n), strings.ToUpper(n), " "+n, n+" ", "\t"+n, n+"\n", n+"\x00", "\""+n+"\"", n+",", n+";", "math."+n, n+"()", n+n,
			strings.TrimSuffix(n, "Activation"), strings.TrimSuffix(n, "Activation")+"activation", strings.TrimSuffix(n, "Activation")+"_activation",
			n+sorted[(i+1)%len(sorted)], n+" "+sorted[(i+1)%len(sorted)], n+"|"+sorted[(i+1)%len(sorted)], n)
	}
	return out
}
