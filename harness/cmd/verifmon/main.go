// verifmon: runtime monitors for the goNEAT properties C01..C20.
//
//	verifmon <PROP> <quick|thorough>      parent: shards the case list over child processes, writes evidence
//	verifmon child  <PROP> <tier> <seed> <shard> <nshards> <outdir>
//	verifmon replay <path>                re-executes the single case recorded in a replay file
package main

import (
	"fmt"
	"os"
	"strconv"

	"github.com/yaricom/goNEAT/v4/neat"
)

func quietLibrary() {
	neat.LogLevel = neat.LogLevelError
	nop := func(string) {}
	neat.DebugLog = nop
	neat.InfoLog = nop
	neat.WarnLog = nop
	neat.ErrorLog = nop
}

func usage() {
	fmt.Fprintln(os.Stderr, "usage: verifmon <C01..C20> <quick|thorough> | verifmon replay <path>")
	os.Exit(3)
}

func main() {
	quietLibrary()
	if len(os.Args) < 3 {
		usage()
	}
	switch os.Args[1] {
	case "child":
		if len(os.Args) != 8 {
			usage()
		}
		seed, _ := strconv.ParseInt(os.Args[4], 10, 64)
		shard, _ := strconv.Atoi(os.Args[5])
		nshards, _ := strconv.Atoi(os.Args[6])
		os.Exit(runChild(os.Args[2], os.Args[3], seed, shard, nshards, os.Args[7]))
	case "replay":
		os.Exit(runReplay(os.Args[2]))
	case "c17dump":
		// verifmon c17dump <tier> <seed> <case>: prints the per-epoch hashes of one reproducibility scenario
		seed, _ := strconv.ParseInt(os.Args[3], 10, 64)
		idx, _ := strconv.Atoi(os.Args[4])
		os.Exit(c17Dump(os.Args[2], seed, idx))
	default:
		os.Exit(runParent(os.Args[1], os.Args[2]))
	}
}
