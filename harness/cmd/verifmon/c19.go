package main

import (
	"bytes"
	"fmt"
	"math"
	"math/rand"
	"sort"
	"time"

	"github.com/yaricom/goNEAT/v4/experiment"
	"github.com/yaricom/goNEAT/v4/neat/genetics"
)

// C19 - result statistics equal their definitions for every series.

func init() {
	register(&Prop{
		ID: "C19", Level: "exploration", DesignRef: "DESIGN.md section 4 C19",
		Rule: "even cases: 400 (quick) / 4000 (thorough) series of length 0..200 and the block sizes 127..1024 (sorted, reversed, shuffled, constant, with ties, with a common offset 1e3..1e8 times the spread, magnitudes " +
			"1e-12..1e12) - Min, Max, Sum, Mean, MeanVariance, Median, Q25, Q75, Variance, StdDev against textbook definitions on a sorted " +
			"copy (empirical quantile = sorted[ceil(p*n)-1]), for three permutations of the same data, the caller's slice must stay " +
			"untouched, no panic, NaN (0 for the sum) on the empty series; odd cases: 40 / 150 synthetic experiments (0-4 trials x 0-6 " +
			"generations, solved or not, champions with distinct fitness) - every experiment / trial aggregate recomputed directly from " +
			"the recorded generations. evaluations = statistic calls. A series is non-trivial if it has >= 3 distinct values and is not " +
			"sorted; an experiment if it has >= 2 trials of which one is solved; distinct by data fingerprint.",
		Assumptions: []string{"finite values; unbiased variance asserted for n >= 2 only", "tolerances relative to the data: mean / sum 1e-12 (+1e-15 n max|x|), variance 1e-9 (+1e-24 max|x|^2, the rounding of the mean squared), std 1e-9 (+1e-12 max|x|); all of them plus the bound 4 n u sum|x| of plain summation, which matters for the series of 4096-100001 values only"},
		Cases: func(tier string) int {
			if tier == "quick" {
				return 3200
			}
			return 48000
		},
		Run:      runC19,
		Required: []string{"series.unsorted", "series.empty", "series.single", "series.with_ties", "series.large_offset", "experiments", "experiments.partly_solved", "experiments.generations_reordered_in_place", "experiments.no_trials", "trials.unsolved", "trials.empty"},
	})
}

func feq(a, b, tol float64) bool {
	if math.IsNaN(a) || math.IsNaN(b) {
		return math.IsNaN(a) && math.IsNaN(b)
	}
	if a == b {
		return true
	}
	return math.Abs(a-b) <= tol*(1+math.Max(math.Abs(a), math.Abs(b)))
}

func genSeries(r *rand.Rand) ([]float64, string) {
	n := 0
	switch r.Intn(8) {
	case 0:
		n = 0
	case 1:
		n = 1
	case 2:
		n = 2 + r.Intn(3)
	case 3:
		n = pick(r, 127, 128, 129, 255, 256, 257, 384, 512, 640, 1024) // block sizes of chunked algorithms
		if r.Intn(40) == 0 {
			n = pick(r, 4096, 10000, 65537, 100001) // the fitness series of a long run
			c19LongSeries++
		}
	default:
		n = 2 + r.Intn(199)
	}
	scale := math.Pow(10, float64(r.Intn(25)-12))
	x := make([]float64, n)
	shape := r.Intn(7)
	// a large common offset: the spread is 3 to 8 decimal orders below the mean (one-pass variance formulas cancel here)
	offset := scale * math.Pow(10, float64(3+r.Intn(6))) * float64(1-2*r.Intn(2))
	for i := range x {
		switch shape {
		case 6:
			x[i] = offset + r.NormFloat64()*scale
		case 0: // ties
			x[i] = float64(r.Intn(5)) * scale
		case 1: // constant
			x[i] = 3 * scale
		case 2: // rounded grid
			x[i] = math.Round(r.NormFloat64()*5) * scale
		default:
			x[i] = r.NormFloat64() * scale
		}
	}
	name := []string{"ties", "constant", "grid", "normal", "normal", "normal", "offset"}[shape]
	if shape == 6 {
		c19OffsetSeries++
	}
	switch r.Intn(4) {
	case 0:
		sort.Float64s(x)
		name += "/sorted"
	case 1:
		sort.Sort(sort.Reverse(sort.Float64Slice(x)))
		name += "/reversed"
	default:
		name += "/shuffled"
	}
	return x, name
}

var c19OffsetSeries, c19LongSeries int

type refStats struct {
	min, max, sum, mean, variance, std, median, q25, q75 float64
}

func refStatsOf(x []float64) refStats {
	n := len(x)
	s := append([]float64{}, x...)
	sort.Float64s(s)
	q := func(p float64) float64 {
		if n == 0 {
			return math.NaN()
		}
		k := int(math.Ceil(p*float64(n))) - 1
		if k < 0 {
			k = 0
		}
		return s[k]
	}
	rs := refStats{min: math.NaN(), max: math.NaN(), mean: math.NaN(), variance: math.NaN(), std: math.NaN(), median: q(0.5), q25: q(0.25), q75: q(0.75)}
	// sum in sorted order of magnitude is the most accurate
	for _, v := range x {
		rs.sum += v
	}
	if n > 0 {
		rs.min, rs.max = s[0], s[n-1]
		rs.mean = rs.sum / float64(n)
	}
	if n > 1 {
		ss := 0.0
		for _, v := range x {
			ss += (v - rs.mean) * (v - rs.mean)
		}
		rs.variance = ss / float64(n-1)
		rs.std = math.Sqrt(rs.variance)
	}
	return rs
}

func c19Series(c *Ctx, r *rand.Rand) {
	x, shape := genSeries(r)
	n := len(x)
	ref := refStatsOf(x)
	maxAbs := 0.0
	for _, v := range x {
		maxAbs = math.Max(maxAbs, math.Abs(v))
	}
	distinct := map[float64]bool{}
	sumAbs := 0.0
	for _, v := range x {
		distinct[v] = true
		sumAbs += math.Abs(v)
	}
	// the textbook bound of plain summation, for two summations (the library's and the reference's): /error/ <= n u sum/x/ each;
	// it only matters for series of thousands of values, below that the fixed terms are wider
	nu := 4 * float64(n+1) * 1.12e-16
	dMean := 0.0
	if n > 0 {
		dMean = nu * sumAbs / float64(n)
	}
	for perm := 0; perm < 3; perm++ {
		data := append([]float64{}, x...)
		if perm > 0 {
			r.Shuffle(len(data), func(i, j int) { data[i], data[j] = data[j], data[i] })
		}
		orig := append([]float64{}, data...)
		fl := experiment.Floats(data)
		detail := func() map[string]interface{} {
			d := map[string]interface{}{"shape": shape, "n": n}
			if n <= 40 {
				d["series"] = fmt.Sprint(orig)
			} else {
				d["series_head"] = fmt.Sprint(orig[:40])
			}
			return d
		}
		// tolerances scale with the data, never with 1: a series of magnitude 1e-12 is held to the same relative accuracy
		relTol := func(a, b, rel, abs float64) bool {
			if math.IsNaN(a) || math.IsNaN(b) {
				return math.IsNaN(a) && math.IsNaN(b)
			}
			return a == b || math.Abs(a-b) <= rel*math.Max(math.Abs(a), math.Abs(b))+abs
		}
		type chk struct {
			name  string
			got   float64
			want  float64
			exact bool
			isVar bool
			skip  bool
		}
		mv := fl.MeanVariance()
		if len(mv) != 2 {
			c.Violate("mean-variance-shape", detail(), "MeanVariance returned %d values", len(mv))
			return
		}
		checks := []chk{
			{"Min", fl.Min(), ref.min, true, false, false},
			{"Max", fl.Max(), ref.max, true, false, false},
			{"Sum", fl.Sum(), ref.sum, false, false, false},
			{"Mean", fl.Mean(), ref.mean, false, false, false},
			{"Median", fl.Median(), ref.median, true, false, false},
			{"Q25", fl.Q25(), ref.q25, true, false, false},
			{"Q75", fl.Q75(), ref.q75, true, false, false},
			{"Variance", fl.Variance(), ref.variance, false, true, n == 1},
			{"StdDev", fl.StdDev(), ref.std, false, true, n == 1},
			{"MeanVariance[0]", mv[0], ref.mean, false, false, false},
			{"MeanVariance[1]", mv[1], ref.variance, false, true, n == 1},
		}
		for _, k := range checks {
			c.Eval(1)
			if k.skip {
				continue
			}
			ok := false
			switch {
			case k.exact:
				ok = k.got == k.want || (math.IsNaN(k.got) && math.IsNaN(k.want))
			case k.name == "StdDev":
				// sqrt of the accumulated rounding of the mean: (n eps max|x|), for long series the summation bound below
				ok = relTol(k.got, k.want, 1e-9+nu, 1e-12*maxAbs+1.5*dMean)
			case k.isVar:
				// the rounding of the mean enters the sum of squares as (n eps max|x|)^2
				ok = relTol(k.got, k.want, 1e-9+nu, 1e-24*maxAbs*maxAbs+2*dMean*dMean)
			case k.name == "Sum":
				ok = relTol(k.got, k.want, 1e-12, 1e-15*maxAbs*float64(n+1)+nu*sumAbs)
			default:
				ok = relTol(k.got, k.want, 1e-12, 1e-15*maxAbs*float64(n+1)+dMean)
			}
			if !ok {
				d := detail()
				d["key"] = k.name
				c.Violate("statistic", d, "%s = %v, the definition gives %v (n=%d, %s, permutation %d)", k.name, k.got, k.want, n, shape, perm)
				return
			}
		}
		if n == 0 && fl.Sum() != 0 {
			c.Violate("statistic", detail(), "Sum of the empty series is %v", fl.Sum())
			return
		}
		if !vecBitsEqual(data, orig) {
			c.Violate("input-modified", detail(), "the statistics calls modified the caller's slice")
			return
		}
	}
	if c19LongSeries > 0 {
		c.Count("series.of_thousands_of_values", c19LongSeries)
		c19LongSeries = 0
	}
	if c19OffsetSeries > 0 {
		c.Count("series.large_offset", c19OffsetSeries)
		c19OffsetSeries = 0
	}
	switch {
	case n == 0:
		c.Count("series.empty", 1)
	case n == 1:
		c.Count("series.single", 1)
	}
	if len(distinct) < n {
		c.Count("series.with_ties", 1)
	}
	if !sort.Float64sAreSorted(x) {
		c.Count("series.unsorted", 1)
		if len(distinct) >= 3 {
			h := newHasher()
			for _, v := range x {
				h.u64(fbits(v))
			}
			c.Distinct(h.sum())
			if c.WantSample() && n <= 12 {
				c.Sample(map[string]interface{}{"series": x, "median": ref.median, "q25": ref.q25, "q75": ref.q75, "mean": ref.mean, "variance": ref.variance})
			}
		}
	}
}

// ---------------------------------------------------------------------------------------------------------------------
// synthetic experiments (shared with C15)

type synthGen struct {
	champion   *SnapGenome
	fitness    float64
	solved     bool
	diversity  int
	fit, age   []float64
	complexity []float64
	winner     [3]int // nodes, genes, evals
	speciesAge int
}

type synthExperiment struct {
	exp    *experiment.Experiment
	trials [][]synthGen
}

func genSynthExperiment(r *rand.Rand, pool []*genetics.Genome) *synthExperiment {
	se := &synthExperiment{exp: &experiment.Experiment{Id: r.Intn(100), Name: pick(r, "synth", "", "xor run", "exp-7")}}
	nt := r.Intn(5)
	fitSeq := 0
	negHuge := r.Intn(8) == 0
	// a plateau: the champions of the whole experiment differ in the ninth decimal only, the best one recorded last
	plateau := !negHuge && r.Intn(6) == 0
	// the marker the library records as complexity when the phenotype of a species' best organism can not be built
	unknownComplexity := r.Intn(6) == 0
	// records put together outside Execute: the generations carry no execution time (the zero time)
	neverStamped := r.Intn(7) == 0
	for ti := 0; ti < nt; ti++ {
		tr := experiment.Trial{Id: ti}
		ng := r.Intn(7)
		solvedAt := -1
		if r.Intn(2) == 0 && ng > 0 {
			solvedAt = r.Intn(ng)
		}
		var gens []synthGen
		for gi := 0; gi < ng; gi++ {
			src := pool[r.Intn(len(pool))]
			snap := snapGenome(src)
			g := buildFromSnap(snap)
			fitSeq++
			// distinct champion fitness so that the best organism of a trial is unique
			fit := math.Abs(r.NormFloat64())*10 + float64(fitSeq)*1e-6
			if negHuge {
				// a fitness that is a negated error of a diverging network: far below zero
				fit = -(1e19 + math.Abs(r.NormFloat64())*1e22 + float64(fitSeq)*1e8)
			}
			if plateau {
				fit = 15.9999990 + float64(fitSeq)*pick(r, 1e-9, 3e-8)
			}
			org, _ := genetics.NewOrganism(fit, g, gi)
			sp := genetics.NewSpecies(1 + r.Intn(9))
			sp.Age = 1 + r.Intn(30)
			org.Species = sp
			org.IsWinner = gi == solvedAt
			org.Error = r.Float64()
			gen := experiment.Generation{Id: gi, TrialId: ti, Champion: org, Solved: gi == solvedAt, Diversity: 1 + r.Intn(6),
				Executed: time.Unix(int64(100000+ti*100+gi), 0).UTC(), Duration: time.Duration(1 + r.Intn(100000))}
			if neverStamped {
				gen.Executed = time.Time{}
			}
			k := gen.Diversity
			gen.Fitness, gen.Age, gen.Complexity = make(experiment.Floats, k), make(experiment.Floats, k), make(experiment.Floats, k)
			for i := 0; i < k; i++ {
				gen.Fitness[i], gen.Age[i], gen.Complexity[i] = r.Float64()*10, float64(1+r.Intn(20)), float64(5+r.Intn(30))
				if unknownComplexity && r.Intn(3) == 0 {
					gen.Complexity[i] = float64(math.MaxInt)
				}
			}
			sg := synthGen{champion: snap, fitness: fit, solved: gen.Solved, diversity: k, fit: append([]float64{}, gen.Fitness...),
				age: append([]float64{}, gen.Age...), complexity: append([]float64{}, gen.Complexity...), speciesAge: sp.Age}
			if gen.Solved {
				gen.WinnerNodes, gen.WinnerGenes, gen.WinnerEvals = len(g.Nodes), g.Extrons(), 1+r.Intn(5000)
				switch r.Intn(6) {
				case 0: // an evaluator that reports the number of evaluations only: the size of the winner is left at zero
					gen.WinnerNodes, gen.WinnerGenes = 0, 0
				case 1:
					gen.WinnerGenes = 0
				}
				sg.winner = [3]int{gen.WinnerNodes, gen.WinnerGenes, gen.WinnerEvals}
			}
			tr.Generations = append(tr.Generations, gen)
			gens = append(gens, sg)
		}
		se.exp.Trials = append(se.exp.Trials, tr)
		se.trials = append(se.trials, gens)
	}
	return se
}

func snapComplexity(s *SnapGenome) int {
	links := 0
	for _, g := range s.Genes {
		if g.En {
			links++
		}
	}
	return len(s.Nodes) + links
}

func meanOf(x []float64) float64 {
	if len(x) == 0 {
		return math.NaN()
	}
	s := 0.0
	for _, v := range x {
		s += v
	}
	return s / float64(len(x))
}

// checkAggregates recomputes the aggregates directly from the recorded generations. withSpecies tells whether the
// champion organisms still carry their species (they do not after a write / read round trip).
func checkAggregates(c *Ctx, se *synthExperiment, e *experiment.Experiment, withSpecies bool) (string, string) {
	nt := len(se.trials)
	if len(e.Trials) != nt {
		return "agg/trials", fmt.Sprintf("%d trials, expected %d", len(e.Trials), nt)
	}
	solvedTrials := 0
	bestFit, bestCx, bestAge, avgDiv, epochs := make([]float64, nt), make([]float64, nt), make([]float64, nt), make([]float64, nt), make([]float64, nt)
	var wn, wg, we, wd, wcount int
	totalGens := 0
	for ti, gens := range se.trials {
		solved := false
		best := -1
		var divs []float64
		firstSolved := -1
		for gi, g := range gens {
			if g.solved && firstSolved < 0 {
				firstSolved = gi
			}
			solved = solved || g.solved
			if best < 0 || g.fitness > gens[best].fitness {
				best = gi
			}
			divs = append(divs, float64(g.diversity))
		}
		if solved {
			solvedTrials++
			wn += gens[firstSolved].winner[0]
			wg += gens[firstSolved].winner[1]
			we += gens[firstSolved].winner[2]
			wd += gens[firstSolved].diversity
			wcount++
		}
		if best >= 0 {
			bestFit[ti] = gens[best].fitness
			bestCx[ti] = float64(snapComplexity(gens[best].champion))
			bestAge[ti] = float64(gens[best].speciesAge)
		}
		avgDiv[ti] = meanOf(divs)
		epochs[ti] = float64(len(gens))
		totalGens += len(gens)

		// trial level
		tr := &e.Trials[ti]
		c.Eval(8)
		if tr.Solved() != solved {
			return "agg/trial-solved", fmt.Sprintf("trial %d Solved() = %v, expected %v", ti, tr.Solved(), solved)
		}
		org, found := tr.BestOrganism(false)
		if found != (len(gens) > 0) || (found && org.Fitness != gens[best].fitness) {
			return "agg/trial-best", fmt.Sprintf("trial %d BestOrganism(false) is wrong (found=%v)", ti, found)
		}
		orgS, foundS := tr.BestOrganism(true)
		if foundS != solved {
			return "agg/trial-best-solver", fmt.Sprintf("trial %d BestOrganism(true) found=%v, expected %v", ti, foundS, solved)
		}
		if foundS {
			bs := -1
			for gi, g := range gens {
				if g.solved && (bs < 0 || g.fitness > gens[bs].fitness) {
					bs = gi
				}
			}
			if orgS.Fitness != gens[bs].fitness {
				return "agg/trial-best-solver", fmt.Sprintf("trial %d BestOrganism(true) has fitness %v, expected %v", ti, orgS.Fitness, gens[bs].fitness)
			}
		}
		if !vecBitsEqual(tr.Diversity(), divs) && !(len(divs) == 0 && len(tr.Diversity()) == 0) {
			return "agg/trial-diversity", fmt.Sprintf("trial %d Diversity() = %v, expected %v", ti, tr.Diversity(), divs)
		}
		fa, aa, ca := tr.Average()
		cf, cages, ccx := tr.ChampionsFitness(), tr.ChampionSpeciesAges(), tr.ChampionsComplexities()
		if len(fa) != len(gens) || len(aa) != len(gens) || len(ca) != len(gens) || len(cf) != len(gens) || len(cages) != len(gens) || len(ccx) != len(gens) {
			return "agg/trial-series", fmt.Sprintf("trial %d series have wrong lengths", ti)
		}
		for gi, g := range gens {
			if !feq(fa[gi], meanOf(g.fit), 1e-12) || !feq(aa[gi], meanOf(g.age), 1e-12) || !feq(ca[gi], meanOf(g.complexity), 1e-12) {
				return "agg/trial-average", fmt.Sprintf("trial %d generation %d Average() = (%v, %v, %v), expected (%v, %v, %v)", ti, gi, fa[gi], aa[gi], ca[gi], meanOf(g.fit), meanOf(g.age), meanOf(g.complexity))
			}
			if cf[gi] != g.fitness {
				return "agg/champions-fitness", fmt.Sprintf("trial %d ChampionsFitness()[%d] = %v, expected %v", ti, gi, cf[gi], g.fitness)
			}
			if ccx[gi] != float64(snapComplexity(g.champion)) {
				return "agg/champions-complexity", fmt.Sprintf("trial %d ChampionsComplexities()[%d] = %v, expected %d", ti, gi, ccx[gi], snapComplexity(g.champion))
			}
			if withSpecies && cages[gi] != float64(g.speciesAge) {
				return "agg/champions-age", fmt.Sprintf("trial %d ChampionSpeciesAges()[%d] = %v, expected %d", ti, gi, cages[gi], g.speciesAge)
			}
		}
		n, gcount, ev, dv := tr.WinnerStatistics()
		switch {
		case solved:
			w := gens[firstSolved]
			if n != w.winner[0] || gcount != w.winner[1] || ev != w.winner[2] || dv != w.diversity {
				return "agg/winner-statistics", fmt.Sprintf("trial %d WinnerStatistics() = (%d,%d,%d,%d), expected (%d,%d,%d,%d)", ti, n, gcount, ev, dv, w.winner[0], w.winner[1], w.winner[2], w.diversity)
			}
		case len(gens) == 0:
			if n != -1 || gcount != -1 || ev != -1 || dv != -1 {
				return "agg/winner-statistics", fmt.Sprintf("trial %d without generations: WinnerStatistics() = (%d,%d,%d,%d)", ti, n, gcount, ev, dv)
			}
		}
		if !solved {
			c.Count("trials.unsolved", 1)
		}
		if len(gens) == 0 {
			c.Count("trials.empty", 1)
		}
	}
	// experiment level
	c.Eval(10)
	if e.TrialsSolved() != solvedTrials {
		return "agg/trials-solved", fmt.Sprintf("TrialsSolved() = %d, expected %d", e.TrialsSolved(), solvedTrials)
	}
	wantRate := 0.0
	if nt > 0 {
		wantRate = float64(solvedTrials) / float64(nt)
	}
	if !feq(e.SuccessRate(), wantRate, 1e-12) {
		return "agg/success-rate", fmt.Sprintf("SuccessRate() = %v, expected %v (%d of %d trials solved)", e.SuccessRate(), wantRate, solvedTrials, nt)
	}
	if e.Solved() != (solvedTrials > 0) {
		return "agg/solved", fmt.Sprintf("Solved() = %v with %d solved trials", e.Solved(), solvedTrials)
	}
	eq := func(name string, got experiment.Floats, want []float64) (string, string) {
		if len(got) != len(want) {
			return "agg/" + name, fmt.Sprintf("%s has %d entries, expected %d", name, len(got), len(want))
		}
		for i := range want {
			if !feq(got[i], want[i], 1e-12) {
				return "agg/" + name, fmt.Sprintf("%s[%d] = %v, recomputed from the generations: %v", name, i, got[i], want[i])
			}
		}
		return "", ""
	}
	if k, m := eq("best-fitness", e.BestFitness(), bestFit); k != "" {
		return k, m
	}
	if k, m := eq("best-complexity", e.BestComplexity(), bestCx); k != "" {
		return k, m
	}
	if withSpecies {
		if k, m := eq("best-species-age", e.BestSpeciesAge(), bestAge); k != "" {
			return k, m
		}
	}
	if k, m := eq("avg-diversity", e.AvgDiversity(), avgDiv); k != "" {
		return k, m
	}
	if k, m := eq("epochs-per-trial", e.EpochsPerTrial(), epochs); k != "" {
		return k, m
	}
	wantAvgGen := 0.0
	if nt > 0 {
		wantAvgGen = float64(totalGens) / float64(nt)
	}
	if !feq(e.AvgGenerationsPerTrial(), wantAvgGen, 1e-12) {
		return "agg/avg-generations", fmt.Sprintf("AvgGenerationsPerTrial() = %v, expected %v", e.AvgGenerationsPerTrial(), wantAvgGen)
	}
	an, ag, ae, ad := e.AvgWinnerStatistics()
	if wcount == 0 {
		if an != -1 || ag != -1 || ae != -1 || ad != -1 {
			return "agg/avg-winner", fmt.Sprintf("AvgWinnerStatistics() without solved trials = (%v,%v,%v,%v)", an, ag, ae, ad)
		}
	} else {
		f := float64(wcount)
		if !feq(an, float64(wn)/f, 1e-12) || !feq(ag, float64(wg)/f, 1e-12) || !feq(ae, float64(we)/f, 1e-12) || !feq(ad, float64(wd)/f, 1e-12) {
			return "agg/avg-winner", fmt.Sprintf("AvgWinnerStatistics() = (%v,%v,%v,%v), expected (%v,%v,%v,%v)", an, ag, ae, ad, float64(wn)/f, float64(wg)/f, float64(we)/f, float64(wd)/f)
		}
	}
	return "", ""
}

func (se *synthExperiment) fingerprint() uint64 {
	h := newHasher()
	for _, gens := range se.trials {
		h.i(len(gens))
		for _, g := range gens {
			h.u64(fbits(g.fitness))
			h.b(g.solved)
			h.i(g.diversity)
			h.u64(g.champion.fingerprint())
		}
	}
	return h.sum()
}

func (se *synthExperiment) brief() map[string]interface{} {
	var trials []string
	for _, gens := range se.trials {
		s := ""
		for _, g := range gens {
			if g.solved {
				s += "S"
			} else {
				s += "-"
			}
		}
		trials = append(trials, fmt.Sprintf("[%s]", s))
	}
	return map[string]interface{}{"trials (one mark per generation, S = solved)": trials}
}

func genomePool(r *rand.Rand) []*genetics.Genome {
	o := genOpts(r)
	o.MutateToggleEnableProb = 0.4
	f := newFamily(r, o)
	f.grow(r, 100+r.Intn(100))
	return f.Members
}

func runC19(c *Ctx, idx int) {
	r := c.G
	if idx%2 == 0 {
		n := 400
		if c.Tier == "thorough" {
			n = 4000
		}
		for i := 0; i < n && !c.Violated(); i++ {
			c19Series(c, r)
		}
		return
	}
	n := 40
	if c.Tier == "thorough" {
		n = 150
	}
	pool := genomePool(r)
	// the series handed out for the previous experiment: they must not change when the next one is computed
	var held, heldCopy [][]float64
	for i := 0; i < n && !c.Violated(); i++ {
		se := genSynthExperiment(r, pool)
		c.Count("experiments", 1)
		if kind, msg := checkAggregates(c, se, se.exp, true); kind != "" {
			c.Violate(kind, map[string]interface{}{"experiment": se.brief()}, "%s", msg)
			return
		}
		// the caller re-orders the recorded generations in place (Generations is a sort.Interface): the aggregates are those
		// of the generations as they are recorded now, whatever was computed (and possibly remembered) before
		if r.Intn(2) == 0 {
			for ti := range se.exp.Trials {
				gs := se.exp.Trials[ti].Generations
				for a, b := 0, len(gs)-1; a < b; a, b = a+1, b-1 {
					gs[a], gs[b] = gs[b], gs[a]
					se.trials[ti][a], se.trials[ti][b] = se.trials[ti][b], se.trials[ti][a]
				}
			}
			c.Count("experiments.generations_reordered_in_place", 1)
			if kind, msg := checkAggregates(c, se, se.exp, true); kind != "" {
				c.Violate(kind, map[string]interface{}{"experiment": se.brief(), "key": "after-reorder"}, "after the recorded generations were reversed in place: %s", msg)
				return
			}
		}
		// trials are recorded in place, as Execute records them into its pre-allocated list and as a caller replaces the record
		// of a repeated trial: the aggregates asked for in between and afterwards are those of the trials as recorded then
		if nt := len(se.trials); nt > 0 && r.Intn(3) == 0 {
			inc := &synthExperiment{exp: &experiment.Experiment{Id: se.exp.Id, Name: se.exp.Name, Trials: make(experiment.Trials, nt)}, trials: make([][]synthGen, nt)}
			for k := 0; k < nt; k++ {
				inc.exp.Trials[k] = experiment.Trial{Id: k}
			}
			for k := 0; k < nt; k++ {
				if kind, msg := checkAggregates(c, inc, inc.exp, true); kind != "" {
					c.Violate(kind, map[string]interface{}{"experiment": inc.brief(), "key": "recorded-in-place"}, "with %d of %d pre-allocated trials recorded in place: %s", k, nt, msg)
					return
				}
				inc.exp.Trials[k], inc.trials[k] = se.exp.Trials[k], se.trials[k]
			}
			if kind, msg := checkAggregates(c, inc, inc.exp, true); kind != "" {
				c.Violate(kind, map[string]interface{}{"experiment": inc.brief(), "key": "recorded-in-place"}, "with all %d pre-allocated trials recorded in place: %s", nt, msg)
				return
			}
			for try := 0; try < 6; try++ {
				donor := genSynthExperiment(r, pool)
				if len(donor.trials) == 0 {
					continue
				}
				k, j := r.Intn(nt), r.Intn(len(donor.trials))
				inc.exp.Trials[k], inc.trials[k] = donor.exp.Trials[j], donor.trials[j]
				if kind, msg := checkAggregates(c, inc, inc.exp, true); kind != "" {
					c.Violate(kind, map[string]interface{}{"experiment": inc.brief(), "key": "recorded-in-place"}, "after the record of trial #%d was replaced in place: %s", k, msg)
					return
				}
				c.Count("experiments.trial_replaced_in_place", 1)
				break
			}
			c.Count("experiments.trials_recorded_in_place", 1)
		}
		// the aggregates of an experiment that was stored and restored into an Experiment value already in use (same number
		// of trials, other content, every cached aggregate computed) are those of the stored generations
		if i%4 == 1 {
			var buf bytes.Buffer
			if werr := se.exp.Write(&buf); werr == nil {
				var used experiment.Experiment
				for ti := range se.exp.Trials {
					used.Trials = append(used.Trials, experiment.Trial{Id: 100 + ti, Duration: 777, Generations: experiment.Generations{
						{Id: 0, TrialId: 100 + ti, Solved: true, WinnerNodes: 1, WinnerGenes: 2, WinnerEvals: 3, Diversity: 4}}})
				}
				for ti := range used.Trials {
					_, _, _, _ = used.Trials[ti].WinnerStatistics()
				}
				if rerr := used.Read(&buf); rerr == nil {
					c.Count("experiments.restored_into_used_value", 1)
					if kind, msg := checkAggregates(c, se, &used, false); kind != "" {
						c.Violate(kind, map[string]interface{}{"experiment": se.brief(), "key": "restored-into-used"}, "after the experiment was stored and restored into an Experiment value in use: %s", msg)
						return
					}
				}
			}
		}
		for k := range held {
			if !vecBitsEqual(held[k], heldCopy[k]) {
				c.Violate("agg/result-not-stable", map[string]interface{}{"experiment": se.brief()}, "a result series returned for the previous experiment changed while the statistics of the next one were computed")
				return
			}
		}
		held, heldCopy = nil, nil
		hold := func(x []float64) {
			held = append(held, x)
			heldCopy = append(heldCopy, append([]float64{}, x...))
		}
		hold(se.exp.BestFitness())
		hold(se.exp.BestComplexity())
		hold(se.exp.AvgDiversity())
		hold(se.exp.EpochsPerTrial())
		for ti := range se.exp.Trials {
			hold(se.exp.Trials[ti].Diversity())
			hold(se.exp.Trials[ti].ChampionsFitness())
			fa, aa, ca := se.exp.Trials[ti].Average()
			hold(fa)
			hold(aa)
			hold(ca)
		}
		solved := 0
		for _, gens := range se.trials {
			for _, g := range gens {
				if g.solved {
					solved++
					break
				}
			}
		}
		if len(se.trials) == 0 {
			c.Count("experiments.no_trials", 1)
		}
		if solved > 0 && solved < len(se.trials) {
			c.Count("experiments.partly_solved", 1)
		}
		if len(se.trials) >= 2 && solved > 0 {
			c.Distinct(se.fingerprint())
			if c.WantSample() {
				c.Sample(se.brief())
			}
		}
	}
}
