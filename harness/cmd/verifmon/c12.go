package main

import (
	"math"

	neatmath "github.com/yaricom/goNEAT/v4/neat/math"
	"github.com/yaricom/goNEAT/v4/neat/network"
)

// C12 - all solvers compute the feed-forward function of the network.

func init() {
	register(&Prop{
		ID: "C12", Level: "exploration", DesignRef: "DESIGN.md section 4 C12",
		Rule: "one case = 150 (quick) / 600 (thorough) random simple DAGs (1-4 inputs, 0-2 bias nodes, 0-8 hidden in random layers with skip " +
			"connections, 1-3 outputs, every neuron reachable from a sensor, weights N(0,1)*s with s in {0.1,1,3}, all 20 scalar activation " +
			"types, inputs N(0,2)), built through the network API or through Genome.Genesis; outputs of Network.ForwardSteps(L), " +
			"Network.RecursiveSteps, fast ForwardSteps(L), fast RecursiveSteps and fast Relax are compared with the evaluation of every " +
			"neuron once in topological order by the harness' own activation closed forms. evaluations = solver runs. A network is " +
			"non-trivial if its depth is >= 2 and it has a bias link whose removal changes an output by more than 1e-6; distinct by " +
			"(topology, weights) fingerprint.",
		Assumptions: []string{"acyclic simple graphs, every neuron reachable from a sensor", "1e-9 relative + 1e-12 absolute tolerance for summation order",
			"cases in which a step / sign neuron receives a sum within 1e-9 of its discontinuity are skipped (counted)"},
		Cases: func(tier string) int {
			if tier == "quick" {
				return 3200
			}
			return 32000
		},
		Run:      runC12,
		Required: []string{"solver.std_forward", "solver.std_recursive", "solver.fast_forward", "solver.fast_recursive", "solver.fast_relax", "nets.with_bias_that_matters", "nets.via_genesis", "nets.depth_ge_3", "nets.deep_chain"},
	})
}

func runC12(c *Ctx, idx int) {
	r := c.G
	n := 150
	if c.Tier == "thorough" {
		n = 600
	}
	for i := 0; i < n && !c.Violated(); i++ {
		o := netGenOpts{maxIn: 4, maxBias: 2, maxHid: 8, maxOut: 3, edgeProb: pick(r, 0.1, 0.3, 0.5), weightScale: pick(r, 0.1, 1.0, 3.0),
			acts: scalarActivations, reachable: true}
		if r.Intn(3) == 0 {
			// the smooth subset keeps more cases away from discontinuities
			o.acts = []neatmath.NodeActivationType{neatmath.SigmoidSteepenedActivation, neatmath.TanhActivation, neatmath.LinearActivation,
				neatmath.SigmoidPlainActivation, neatmath.GaussianActivation, neatmath.SineActivation, neatmath.LinearClippedActivation}
		}
		if i%50 == 7 {
			// a deep network: 33-45 hidden neurons in a chain with a few skip links (depth beyond any small built-in limit)
			o = netGenOpts{maxIn: 2, maxBias: 1, maxHid: 45, minHid: 33, maxOut: 2, edgeProb: 0.02, weightScale: 1.0, reachable: true, chain: true,
				acts: []neatmath.NodeActivationType{neatmath.TanhActivation, neatmath.LinearClippedActivation, neatmath.SigmoidSteepenedActivation}}
			c.Count("nets.deep_chain", 1)
		}
		if r.Intn(4) == 0 {
			o.flagForward = pick(r, 0.2, 1.0) // forward links which merely carry the recurrent label: still a feed-forward network
		}
		if i%50 != 7 && r.Intn(6) == 0 {
			// outputs feeding later outputs (add-link joins any two neurons), now and then in a network without hidden neurons
			o.outToOut = 0.5
			o.maxOut = 3
			if r.Intn(3) == 0 {
				o.maxHid = 0
			}
			c.Count("nets.outputs_feeding_outputs", 1)
		}
		s := genNet(r, o)
		if i%50 == 27 {
			// a wide network: a hundred to a few hundred neurons in two or three layers, many inputs and outputs
			s = wideNet(r, []neatmath.NodeActivationType{neatmath.SigmoidSteepenedActivation, neatmath.TanhActivation, neatmath.LinearActivation,
				neatmath.SigmoidPlainActivation, neatmath.GaussianActivation, neatmath.LinearClippedActivation})
			c.Count("nets.wide_of_hundreds_of_neurons", 1)
		}
		in := randInputs(r, s.NIn, 2)
		viaGenesis := r.Intn(2) == 0
		if !viaGenesis && r.Intn(3) == 0 {
			// a network assembled by hand: the outputs list and the node list each in an order of their own
			if s.NOut > 1 {
				s.OutOrder = r.Perm(s.NOut)
				c.Count("nets.outputs_list_in_own_order", 1)
			}
			if r.Intn(2) == 0 {
				s.NodeOrder = r.Perm(s.total())
				c.Count("nets.node_list_shuffled", 1)
			}
		}
		if !viaGenesis && r.Intn(4) == 0 {
			// the caller built the inputs list by slicing the node list
			s.InAlias = true
			c.Count("nets.inputs_list_slices_node_list", 1)
		}
		if !viaGenesis && r.Intn(4) == 0 {
			// auxiliary parameters on the neurons: no built-in activation function reads them, every solver computes the same function
			s.NodeParams = make([][]float64, s.total())
			for k := range s.NodeParams {
				s.NodeParams[k] = []float64{pick(r, 0.3, -0.7, 2.0), r.NormFloat64()}
			}
			c.Count("nets.neurons_with_aux_params", 1)
		}
		c12Net(c, s, in, viaGenesis)
	}
	if c12K2Witness != nil && !c.Violated() {
		// known finding K2 (DESIGN.md section 3.5), reported once per case after everything else was checked
		w := c12K2Witness
		c12K2Witness = nil
		c.Violate("solver-value/std_recursive", w, "Network.RecursiveSteps on a network without hidden neurons whose outputs feed outputs activates for %v step(s), the longest path has %v links: returned %v, topological evaluation gives %v",
			w["depth_reported"], w["longest_path"], w["got"], w["expected"])
	}
	c12K2Witness = nil
}

const keyK2 = "network_recursive_steps:depth-quick-case:no-hidden-neurons:outputs-feed-outputs"

// c12K2Witness holds the first reproduced witness of known finding K2 of the running case
var c12K2Witness map[string]interface{}

func c12Net(c *Ctx, s *netSpec, in []float64, viaGenesis bool) {
	want, _, sums := s.eval(in)
	// a discontinuity amplifies legitimate rounding differences: skip
	for v := s.sensors(); v < s.total(); v++ {
		if (s.Acts[v] == neatmath.StepActivation || s.Acts[v] == neatmath.SignActivation) && math.Abs(sums[v]) < 1e-9 {
			c.Count("nets.skipped_near_discontinuity", 1)
			return
		}
	}
	for _, w := range want {
		if math.IsNaN(w) || math.IsInf(w, 0) {
			c.Count("nets.skipped_non_finite_reference", 1)
			return
		}
	}
	L, _ := s.longest()
	build := func() *network.Network {
		if viaGenesis {
			net, err := s.genome().Genesis(1)
			if err != nil {
				panic("harness: genesis of generated DAG failed: " + err.Error())
			}
			return net
		}
		return s.build()
	}
	if viaGenesis {
		c.Count("nets.via_genesis", 1)
	}
	detail := func(got []float64) map[string]interface{} {
		return map[string]interface{}{"net": s.full(), "inputs": in, "expected": want, "got": got, "longest_path": L, "via_genesis": viaGenesis}
	}
	check := func(name string, got []float64, err error) bool {
		c.Eval(1)
		c.Count("solver."+name, 1)
		if err != nil {
			c.Violate("solver-error/"+name, detail(got), "%s failed on a feed-forward network: %v", name, err)
			return false
		}
		if !vecClose(got, want, 1e-9, 1e-12) {
			c.Violate("solver-value/"+name, detail(got), "%s returned %v, topological evaluation gives %v", name, got, want)
			return false
		}
		return true
	}
	steps := L
	if steps < 1 {
		steps = 1
	}
	// (a) standard network, forward steps
	net := build()
	if err := net.LoadSensors(in); err != nil {
		c.Violate("solver-error/load", detail(nil), "LoadSensors failed: %v", err)
		return
	}
	_, err := net.ForwardSteps(steps)
	if !check("std_forward", net.ReadOutputs(), err) {
		return
	}
	// (b) standard network, recursive steps
	k2shape := false
	if s.NHid == 0 {
		for _, e := range s.Edges {
			k2shape = k2shape || (s.isOutput(e.From) && s.isOutput(e.To) && !e.Back)
		}
	}
	net = build()
	if k2shape {
		// known finding K2: the depth computation answers 1 for every network without hidden neurons (its own test suite pins
		// that for a fixture whose outputs feed each other), so Network.RecursiveSteps stops short of the longest path. The
		// finding is attributed only if it reproduces: the reported depth is below the longest path and the value is wrong.
		depth, derr := net.MaxActivationDepth()
		_ = net.LoadSensors(in)
		_, rerr := net.RecursiveSteps()
		got := net.ReadOutputs()
		c.Count("solver.std_recursive_on_hiddenless_chained_outputs", 1)
		if rerr != nil || !vecClose(got, want, 1e-9, 1e-12) {
			if derr == nil && rerr == nil && depth < L {
				if c12K2Witness == nil {
					w := detail(got)
					w["key"], w["depth_reported"] = keyK2, depth
					c12K2Witness = w
				}
			} else {
				check("std_recursive", got, rerr)
				return
			}
		}
		net = build()
	}
	if !k2shape && L >= 2 && c.G.Intn(3) == 0 {
		// the way evaluators bound the work: a depth query with a cap, which is hit here; the network is used afterwards
		if _, derr := net.MaxActivationDepthWithCap(1 + c.G.Intn(L-1)); derr != nil {
			c.Count("solver.capped_depth_query_hit_the_cap_before_recursive", 1)
		}
	}
	if !k2shape {
		_ = net.LoadSensors(in)
		_, err = net.RecursiveSteps()
		if !check("std_recursive", net.ReadOutputs(), err) {
			return
		}
	}
	// (c) fast solver, forward
	fast, err := build().FastNetworkSolver()
	if err != nil {
		c.Violate("solver-error/fast-build", detail(nil), "FastNetworkSolver failed: %v", err)
		return
	}
	if err = fast.LoadSensors(in); err != nil {
		c.Violate("solver-error/load", detail(nil), "fast LoadSensors failed: %v", err)
		return
	}
	_, err = fast.ForwardSteps(steps)
	if !check("fast_forward", fast.ReadOutputs(), err) {
		return
	}
	// (d) fast solver, recursive
	fast, _ = build().FastNetworkSolver()
	_ = fast.LoadSensors(in)
	_, err = fast.RecursiveSteps()
	if !check("fast_recursive", fast.ReadOutputs(), err) {
		return
	}
	// (e) fast solver, relaxation
	fast, _ = build().FastNetworkSolver()
	_ = fast.LoadSensors(in)
	_, err = fast.Relax(s.total()+1, 1e-300)
	if !check("fast_relax", fast.ReadOutputs(), err) {
		return
	}
	// more steps than needed must not change the answer
	fast, _ = build().FastNetworkSolver()
	_ = fast.LoadSensors(in)
	_, err = fast.ForwardSteps(steps + 3)
	if !check("fast_forward", fast.ReadOutputs(), err) {
		return
	}

	// a second input vector on instances that have already propagated the first one (no flush in between): a feed-forward
	// network keeps nothing of the earlier inputs once the new ones have travelled the longest path
	in2 := make([]float64, len(in))
	for i := range in {
		in2[i] = -0.5*in[i] + float64(i+1)*0.37
	}
	want2, _, sums2 := s.eval(in2)
	near := false
	for v := s.sensors(); v < s.total(); v++ {
		if (s.Acts[v] == neatmath.StepActivation || s.Acts[v] == neatmath.SignActivation) && math.Abs(sums2[v]) < 1e-9 {
			near = true
		}
	}
	for _, w := range want2 {
		near = near || math.IsNaN(w) || math.IsInf(w, 0)
	}
	if !near {
		in1 := in
		want, in = want2, in2
		net = build()
		_ = net.LoadSensors(in1)
		_, _ = net.ForwardSteps(steps)
		net2 := net
		_ = net2.LoadSensors(in2)
		_, err = net2.ForwardSteps(steps)
		if !check("std_forward_second_input", net2.ReadOutputs(), err) {
			return
		}
		fast, _ = build().FastNetworkSolver()
		_ = fast.LoadSensors(in1)
		_, _ = fast.ForwardSteps(steps)
		_ = fast.LoadSensors(in2)
		_, err = fast.ForwardSteps(steps)
		if !check("fast_forward_second_input", fast.ReadOutputs(), err) {
			return
		}
		_ = fast.LoadSensors(in2)
		_, err = fast.RecursiveSteps()
		if !check("fast_recursive_second_input", fast.ReadOutputs(), err) {
			return
		}
		_ = fast.LoadSensors(in2)
		_, err = fast.Relax(s.total()+1, 1e-300)
		if !check("fast_relax_second_input", fast.ReadOutputs(), err) {
			return
		}
	}

	// two fast solvers derived from one network object, used side by side on different inputs: each computes the function of
	// its own inputs
	if !c12TwoSolvers(c, s, build, steps, detail) {
		return
	}

	// mixed sequences on one instance: every mode after every other, with and without a flush in between, each time on a new
	// input vector
	if !c12Sequence(c, s, build, steps, detail) {
		return
	}

	// coverage: does a bias link matter?
	biasMatters := false
	if s.NBias > 0 {
		for i, e := range s.Edges {
			if e.From >= s.NIn && e.From < s.sensors() {
				cp := *s
				cp.Edges = append(append([]netEdge{}, s.Edges[:i]...), s.Edges[i+1:]...)
				o2, _, _ := cp.eval(in)
				for k := range o2 {
					if math.Abs(o2[k]-want[k]) > 1e-6 {
						biasMatters = true
					}
				}
			}
			if biasMatters {
				break
			}
		}
	}
	if biasMatters {
		c.Count("nets.with_bias_that_matters", 1)
	}
	if L >= 3 {
		c.Count("nets.depth_ge_3", 1)
	}
	if biasMatters && L >= 2 {
		h := newHasher()
		h.i(s.NIn)
		h.i(s.NBias)
		h.i(s.NHid)
		h.i(s.NOut)
		for _, e := range s.Edges {
			h.i(e.From)
			h.i(e.To)
			h.u64(fbits(e.W))
		}
		for _, a := range s.Acts {
			h.i(int(a))
		}
		c.Distinct(h.sum())
		if c.WantSample() {
			c.Sample(map[string]interface{}{"net": s.brief(), "inputs": in, "outputs": want, "longest_path": L})
		}
	}
}

// c12Sequence drives one fast solver and one standard network through a PRNG-chosen sequence of activation modes; before
// every step a new input vector is loaded, sometimes after a flush. Whatever ran before, the outputs must be the
// feed-forward function of the vector loaded last.
func c12Sequence(c *Ctx, s *netSpec, build func() *network.Network, steps int, detail func([]float64) map[string]interface{}) bool {
	r := c.G
	k2shape := false // (known finding K2: the standard solver's recursive mode is left out for this shape, see c12Net)
	if s.NHid == 0 {
		for _, e := range s.Edges {
			k2shape = k2shape || (s.isOutput(e.From) && s.isOutput(e.To) && !e.Back)
		}
	}
	fastS, err := build().FastNetworkSolver()
	if err != nil {
		return true
	}
	std := build()
	var trace []string
	var prevIn []float64
	for k := 0; k < 5; k++ {
		in := randInputs(r, s.NIn, 2)
		special := false
		switch x := r.Intn(6); {
		case x == 0:
			// the all-zero vector: what a flushed instance holds anyway
			in, special = make([]float64, s.NIn), true
			c.Count("solver.sequence_all_zero_vector", 1)
		case x == 1 && prevIn != nil:
			// the vector loaded last, once more
			in, special = append([]float64{}, prevIn...), true
			c.Count("solver.sequence_same_vector_again", 1)
		}
		prevIn = in
		want, _, sums := s.eval(in)
		skip := false
		for v := s.sensors(); v < s.total(); v++ {
			if (s.Acts[v] == neatmath.StepActivation || s.Acts[v] == neatmath.SignActivation) && math.Abs(sums[v]) < 1e-9 {
				skip = true
			}
		}
		for _, w := range want {
			skip = skip || math.IsNaN(w) || math.IsInf(w, 0)
		}
		if skip {
			if special {
				continue
			}
			return true
		}
		flush := r.Intn(2) == 0
		mode := r.Intn(3)
		// "at least as many steps as the longest path": sometimes a few more, after which nothing changes any more
		fsteps := steps
		if r.Intn(3) == 0 {
			fsteps += 1 + r.Intn(3)
		}
		partial := 0
		if steps >= 2 && r.Intn(4) == 0 {
			partial = 1 + r.Intn(steps-1)
		}
		if steps >= 2 && r.Intn(4) == 0 {
			_, _ = std.MaxActivationDepthWithCap(1 + r.Intn(steps-1))
			c.Count("solver.sequence_capped_depth_query_before", 1)
		}
		if s.NBias > 0 && r.Intn(4) == 0 {
			// the caller may load the bias sensors explicitly (full vector); a later load of the plain input vector means bias = 1 again
			full := append(append([]float64{}, randInputs(r, s.NIn, 2)...), make([]float64, s.NBias)...)
			for i := s.NIn; i < len(full); i++ {
				full[i] = 0.3
			}
			for _, sv := range []network.Solver{fastS, std} {
				if sv.LoadSensors(full) == nil {
					_, _ = sv.ForwardSteps(1)
				}
			}
			c.Count("solver.sequence_explicit_bias_loaded_before", 1)
		}
		for _, inst := range []struct {
			name   string
			solver network.Solver
		}{{"fast", fastS}, {"std", std}} {
			if flush {
				if ok, ferr := inst.solver.Flush(); ferr != nil || !ok {
					c.Violate("solver-error/flush", detail(nil), "%s Flush failed in a sequence: %v", inst.name, ferr)
					return false
				}
			}
			if lerr := inst.solver.LoadSensors(in); lerr != nil {
				c.Violate("solver-error/load", detail(nil), "%s LoadSensors failed in a sequence: %v", inst.name, lerr)
				return false
			}
			if partial > 0 {
				// a first attempt with too few steps (the standard solver refuses it when an output has not been reached yet); the
				// caller goes on from there without loading again: "at least as many steps as the longest path" follow
				if _, perr := inst.solver.ForwardSteps(partial); perr != nil {
					c.Count("solver.sequence_short_attempt_refused_"+inst.name, 1)
				}
			}
			var aerr error
			op := ""
			switch {
			case mode == 0:
				op = "forward"
				_, aerr = inst.solver.ForwardSteps(fsteps)
			case mode == 1 && !(k2shape && inst.name == "std"):
				op = "recursive"
				_, aerr = inst.solver.RecursiveSteps()
			default:
				if inst.name == "std" {
					op = "forward"
					_, aerr = inst.solver.ForwardSteps(fsteps)
				} else {
					op = "relax"
					_, aerr = inst.solver.Relax(s.total()+1, 1e-300)
				}
			}
			step := op
			if flush {
				step = "flush+" + op
			}
			if inst.name == "fast" {
				trace = append(trace, step)
			}
			got := inst.solver.ReadOutputs()
			c.Eval(1)
			c.Count("solver.sequence_"+inst.name+"_"+op, 1)
			if aerr != nil || !vecClose(got, want, 1e-9, 1e-12) {
				d := detail(got)
				d["expected"] = want
				d["inputs"] = in
				d["sequence_so_far"] = append([]string{}, trace...)
				d["instance"] = inst.name
				c.Violate("solver-value/sequence", d, "%s solver, step #%d (%s) of a sequence on one instance returned %v (%v), topological evaluation of the inputs loaded last gives %v",
					inst.name, k, step, got, aerr, want)
				return false
			}
		}
	}
	return true
}

func c12TwoSolvers(c *Ctx, s *netSpec, build func() *network.Network, steps int, detail func([]float64) map[string]interface{}) bool {
	r := c.G
	net := build()
	in1, in2 := randInputs(r, s.NIn, 2), randInputs(r, s.NIn, 2)
	want1, _, sums1 := s.eval(in1)
	want2, _, sums2 := s.eval(in2)
	for v := s.sensors(); v < s.total(); v++ {
		if (s.Acts[v] == neatmath.StepActivation || s.Acts[v] == neatmath.SignActivation) && (math.Abs(sums1[v]) < 1e-9 || math.Abs(sums2[v]) < 1e-9) {
			return true
		}
	}
	for _, w := range append(append([]float64{}, want1...), want2...) {
		if math.IsNaN(w) || math.IsInf(w, 0) {
			return true
		}
	}
	f1, err1 := net.FastNetworkSolver()
	f2, err2 := net.FastNetworkSolver()
	if err1 != nil || err2 != nil {
		c.Violate("solver-error/fast-build", detail(nil), "FastNetworkSolver failed when called twice on one network: %v / %v", err1, err2)
		return false
	}
	_ = f1.LoadSensors(in1)
	_ = f2.LoadSensors(in2)
	_, e1 := f1.ForwardSteps(steps)
	_, e2 := f2.ForwardSteps(steps)
	// the standard network the solvers were derived from is used as well
	_ = net.LoadSensors(in1)
	_, e3 := net.ForwardSteps(steps)
	c.Eval(3)
	c.Count("solver.two_solvers_of_one_network", 1)
	for _, x := range []struct {
		name string
		got  []float64
		want []float64
		err  error
	}{{"first fast solver", f1.ReadOutputs(), want1, e1}, {"second fast solver", f2.ReadOutputs(), want2, e2}, {"the network itself", net.ReadOutputs(), want1, e3}} {
		if x.err != nil || !vecClose(x.got, x.want, 1e-9, 1e-12) {
			d := detail(x.got)
			d["expected"] = x.want
			d["inputs_first"], d["inputs_second"] = in1, in2
			c.Violate("solver-value/two-solvers", d, "two fast solvers derived from one network and the network itself used side by side: %s returned %v (%v), topological evaluation of its own inputs gives %v", x.name, x.got, x.err, x.want)
			return false
		}
	}
	return true
}
