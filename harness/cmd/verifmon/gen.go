package main

import (
	"bytes"
	"fmt"
	"math"
	"math/rand"
	"os"
	"path/filepath"
	"sort"
	"strings"

	"github.com/yaricom/goNEAT/v4/neat"
	"github.com/yaricom/goNEAT/v4/neat/genetics"
	neatmath "github.com/yaricom/goNEAT/v4/neat/math"
	"github.com/yaricom/goNEAT/v4/neat/network"
)

func repoRoot() string {
	if r := os.Getenv("VERIF_REPO"); r != "" {
		return r
	}
	return "/repo"
}

// ---------------------------------------------------------------------------------------------------------------------
// Options

var scalarActivations = []neatmath.NodeActivationType{
	neatmath.SigmoidPlainActivation, neatmath.SigmoidReducedActivation, neatmath.SigmoidBipolarActivation,
	neatmath.SigmoidSteepenedActivation, neatmath.SigmoidApproximationActivation, neatmath.SigmoidSteepenedApproximationActivation,
	neatmath.SigmoidInverseAbsoluteActivation, neatmath.SigmoidLeftShiftedActivation, neatmath.SigmoidLeftShiftedSteepenedActivation,
	neatmath.SigmoidRightShiftedSteepenedActivation, neatmath.TanhActivation, neatmath.GaussianBipolarActivation,
	neatmath.GaussianActivation, neatmath.LinearActivation, neatmath.LinearAbsActivation, neatmath.LinearClippedActivation,
	neatmath.NullActivation, neatmath.SignActivation, neatmath.SineActivation, neatmath.StepActivation,
}

// baseOpts returns options close to the shipped XOR configuration
func baseOpts() *neat.Options {
	return &neat.Options{
		TraitParamMutProb: 0.5, TraitMutationPower: 1.0, WeightMutPower: 2.5,
		DisjointCoeff: 1.0, ExcessCoeff: 1.0, MutdiffCoeff: 0.4, CompatThreshold: 3.0,
		AgeSignificance: 1.0, SurvivalThresh: 0.2,
		MutateOnlyProb: 0.25, MutateRandomTraitProb: 0.1, MutateLinkTraitProb: 0.1, MutateNodeTraitProb: 0.1,
		MutateLinkWeightsProb: 0.9, MutateToggleEnableProb: 0.0, MutateGeneReenableProb: 0.0,
		MutateAddNodeProb: 0.03, MutateAddLinkProb: 0.08, MutateConnectSensors: 0.5,
		InterspeciesMateRate: 0.001, MateMultipointProb: 0.3, MateMultipointAvgProb: 0.3, MateSinglepointProb: 0.3,
		MateOnlyProb: 0.2, RecurOnlyProb: 0.0,
		PopSize: 50, DropOffAge: 15, NewLinkTries: 20, PrintEvery: 0, BabiesStolen: 0, NumRuns: 1, NumGenerations: 10,
		EpochExecutorType: neat.EpochExecutorTypeSequential, GenCompatMethod: neat.GenomeCompatibilityMethodFast,
		NodeActivators:     []neatmath.NodeActivationType{neatmath.SigmoidSteepenedActivation},
		NodeActivatorsProb: []float64{1.0},
		LogLevel:           "error",
	}
}

func pick[T any](r *rand.Rand, xs ...T) T { return xs[r.Intn(len(xs))] }

// genOpts draws option set inside documented ranges. The profile biases structural mutation rates.
func genOpts(r *rand.Rand) *neat.Options {
	o := baseOpts()
	o.TraitParamMutProb = r.Float64()
	o.TraitMutationPower = r.Float64() * 2
	o.WeightMutPower = 0.1 + r.Float64()*4
	o.DisjointCoeff = pick(r, 0.0, 0.5, 1.0, 2.0)
	o.ExcessCoeff = pick(r, 0.0, 0.5, 1.0, 2.0)
	o.MutdiffCoeff = pick(r, 0.0, 0.4, 1.0, 3.0)
	if o.DisjointCoeff == 0 && o.ExcessCoeff == 0 && o.MutdiffCoeff == 0 {
		o.MutdiffCoeff = 0.4
	}
	o.CompatThreshold = pick(r, 0.05, 0.3, 1.0, 3.0, 6.0, 1e6, 1e-8)
	o.AgeSignificance = 1 + r.Float64()*pick(r, 0.0, 1.0, 2.0, -0.75) // (below one: the young are held back instead of boosted)
	o.SurvivalThresh = pick(r, 0.01, 0.1, 0.2, 0.5, 0.9, 1.0, r.Float64()*0.99+0.01)
	o.MutateOnlyProb = r.Float64()
	o.MutateRandomTraitProb = r.Float64() * 0.5
	o.MutateLinkTraitProb = r.Float64() * 0.5
	o.MutateNodeTraitProb = r.Float64() * 0.5
	o.MutateLinkWeightsProb = r.Float64()
	o.MutateToggleEnableProb = r.Float64() * pick(r, 0.0, 0.3, 1.0)
	o.MutateGeneReenableProb = r.Float64() * pick(r, 0.0, 0.3, 1.0)
	o.MutateAddNodeProb = r.Float64() * pick(r, 0.05, 0.3, 0.6)
	o.MutateAddLinkProb = r.Float64() * pick(r, 0.1, 0.5, 1.0)
	o.MutateConnectSensors = r.Float64()
	o.InterspeciesMateRate = r.Float64() * pick(r, 0.01, 0.3, 1.0)
	o.MateMultipointProb = r.Float64()
	o.MateMultipointAvgProb = 0.05 + r.Float64()
	o.MateSinglepointProb = 0.05 + r.Float64()
	o.MateOnlyProb = r.Float64()
	o.RecurOnlyProb = r.Float64() * pick(r, 0.0, 0.3, 1.0)
	// probabilities of exactly 0 and exactly 1 are inside the documented ranges too
	snap := func(p *float64) {
		switch r.Intn(14) {
		case 0:
			*p = 0
		case 1:
			*p = 1
		}
	}
	for _, p := range []*float64{&o.TraitParamMutProb, &o.MutateOnlyProb, &o.MutateRandomTraitProb, &o.MutateLinkTraitProb, &o.MutateNodeTraitProb,
		&o.MutateLinkWeightsProb, &o.MutateToggleEnableProb, &o.MutateGeneReenableProb, &o.MutateAddNodeProb, &o.MutateAddLinkProb,
		&o.MutateConnectSensors, &o.InterspeciesMateRate, &o.MateMultipointProb, &o.MateMultipointAvgProb, &o.MateSinglepointProb,
		&o.MateOnlyProb, &o.RecurOnlyProb} {
		snap(p)
	}
	o.PopSize = pick(r, 3, 4, 5, 8, 13, 20, 33, 50, 80, 120, 150)
	o.DropOffAge = 1 + r.Intn(20)
	o.NewLinkTries = 1 + r.Intn(40)
	if r.Intn(8) == 0 {
		o.NewLinkTries = pick(r, 300, 1000, 3000) // long searches for an open link
	}
	o.BabiesStolen = pick(r, 0, 0, 1, 3, 10, o.PopSize/2)
	if o.BabiesStolen > o.PopSize/2 {
		o.BabiesStolen = o.PopSize / 2
	}
	if r.Intn(2) == 0 {
		o.GenCompatMethod = neat.GenomeCompatibilityMethodLinear
	}
	// activators
	n := 1 + r.Intn(4)
	o.NodeActivators = nil
	o.NodeActivatorsProb = nil
	for i := 0; i < n; i++ {
		o.NodeActivators = append(o.NodeActivators, scalarActivations[r.Intn(len(scalarActivations))])
		o.NodeActivatorsProb = append(o.NodeActivatorsProb, 0.1+r.Float64())
	}
	return o
}

func optsBrief(o *neat.Options) map[string]interface{} {
	return map[string]interface{}{
		"pop": o.PopSize, "thresh": o.CompatThreshold, "surv": o.SurvivalThresh, "dropoff": o.DropOffAge, "stolen": o.BabiesStolen,
		"addnode": round3(o.MutateAddNodeProb), "addlink": round3(o.MutateAddLinkProb), "recur": round3(o.RecurOnlyProb),
		"toggle": round3(o.MutateToggleEnableProb), "compat": string(o.GenCompatMethod), "interspecies": round3(o.InterspeciesMateRate),
	}
}

func round3(x float64) float64 { return math.Round(x*1000) / 1000 }

// ---------------------------------------------------------------------------------------------------------------------
// Start genomes

// xorstartgenes.yml is not used as a start genome: all three of its genes carry innovation number 1, i.e. the file is not a
// well-formed genome (it is still used for the encoding round trips of C15)
var shippedGenomes = []string{"xorstartgenes", "xordisconnectedstartgenes", "pole1startgenes", "pole2_markov_startgenes",
	"pole2_non-markov_startgenes"}

const modularGenomeFile = "test_seed_genome.yml"

var fileCache = map[string][]byte{}

func readDataFile(name string) ([]byte, error) {
	if d, ok := fileCache[name]; ok {
		return d, nil
	}
	d, err := os.ReadFile(filepath.Join(repoRoot(), "data", name))
	if err == nil {
		fileCache[name] = d
	}
	return d, err
}

func loadShippedGenome(name string) (*genetics.Genome, error) {
	data, err := readDataFile(name)
	if err != nil {
		return nil, err
	}
	enc := genetics.PlainGenomeEncoding
	if strings.HasSuffix(name, "yml") {
		enc = genetics.YAMLGenomeEncoding
	}
	rd, err := genetics.NewGenomeReader(bytes.NewReader(data), enc)
	if err != nil {
		return nil, err
	}
	return rd.Read()
}

// buildFromSnap constructs a genome from plain data with public constructors only (independent of library's copier)
func buildFromSnap(s *SnapGenome) *genetics.Genome {
	traits := make([]*neat.Trait, len(s.Traits))
	traitById := map[int]*neat.Trait{}
	for i, st := range s.Traits {
		t := neat.NewTrait()
		t.Id = st.Id
		t.Params = make([]float64, len(st.Params))
		for j, p := range st.Params {
			t.Params[j] = bitsf(p)
		}
		traits[i] = t
		traitById[t.Id] = t
	}
	nodes := make([]*network.NNode, len(s.Nodes))
	nodeById := map[int]*network.NNode{}
	for i, sn := range s.Nodes {
		n := network.NewNNode(sn.Id, network.NodeNeuronType(sn.Neuron))
		n.ActivationType = neatmath.NodeActivationType(sn.Act)
		n.Trait = traitById[sn.TraitId]
		nodes[i] = n
		nodeById[n.Id] = n
	}
	genes := make([]*genetics.Gene, len(s.Genes))
	for i, sg := range s.Genes {
		var link *network.Link
		if t := traitById[sg.TraitId]; t != nil {
			link = network.NewLinkWithTrait(t, bitsf(sg.W), nodeById[sg.In], nodeById[sg.Out], sg.Rec)
		} else {
			link = network.NewLink(bitsf(sg.W), nodeById[sg.In], nodeById[sg.Out], sg.Rec)
		}
		genes[i] = genetics.NewConnectionGene(link, sg.Innov, bitsf(sg.Mut), sg.En)
	}
	if len(s.Modules) == 0 {
		return genetics.NewGenome(s.Id, traits, nodes, genes)
	}
	modules := make([]*genetics.MIMOControlGene, len(s.Modules))
	for i, sm := range s.Modules {
		cn := network.NewNNode(sm.CtrlId, network.HiddenNeuron)
		cn.ActivationType = neatmath.NodeActivationType(sm.Act)
		cn.Trait = traitById[sm.TraitId]
		for j, id := range sm.Ins {
			rec, tr := j < len(sm.InRec) && sm.InRec[j], (*neat.Trait)(nil)
			if j < len(sm.InTr) {
				tr = traitById[sm.InTr[j]]
			}
			if tr != nil {
				cn.Incoming = append(cn.Incoming, network.NewLinkWithTrait(tr, bitsf(sm.InW[j]), nodeById[id], cn, rec))
			} else {
				cn.Incoming = append(cn.Incoming, network.NewLink(bitsf(sm.InW[j]), nodeById[id], cn, rec))
			}
		}
		for j, id := range sm.Outs {
			rec, tr := j < len(sm.OutRec) && sm.OutRec[j], (*neat.Trait)(nil)
			if j < len(sm.OutTr) {
				tr = traitById[sm.OutTr[j]]
			}
			if tr != nil {
				cn.Outgoing = append(cn.Outgoing, network.NewLinkWithTrait(tr, bitsf(sm.OutW[j]), cn, nodeById[id], rec))
			} else {
				cn.Outgoing = append(cn.Outgoing, network.NewLink(bitsf(sm.OutW[j]), cn, nodeById[id], rec))
			}
		}
		modules[i] = genetics.NewMIMOGene(cn, sm.Innov, bitsf(sm.Mut), sm.En)
	}
	return genetics.NewModularGenome(s.Id, traits, nodes, genes, modules)
}

type genomeSpec struct {
	Inputs, Outputs, Hidden int
	Bias                    int // 0 absent, 1 first, 2 last of sensors
	Traits                  int
	TraitBase               int
	GeneProb                float64
	DisabledProb            float64
	RecurProb               float64
	SelfLoopProb            float64
	NilTraitProb            float64
	HiddenFirst             bool // hidden nodes get ids before the outputs (as newGenomeRand does)
	AllowBackEdges          bool // non-recurrent flagged genes may go against the node order
	Activations             bool // random activation types on neurons
	IdGaps                  bool // node ids ascend with gaps (ids are unique and ordered, nothing says they are contiguous)
	SensorsLate             bool // the output nodes get the lowest ids, the sensors follow them (ids ascending, sensors not first)
}

func genSpec(r *rand.Rand) genomeSpec {
	return genomeSpec{
		Inputs: 1 + r.Intn(4), Outputs: 1 + r.Intn(3), Hidden: r.Intn(5), Bias: r.Intn(3),
		Traits: 1 + r.Intn(4), TraitBase: pick(r, 1, 1, 1, 2, 5),
		GeneProb: 0.15 + r.Float64()*0.6, DisabledProb: pick(r, 0.0, 0.15, 0.4), RecurProb: pick(r, 0.0, 0.1, 0.3),
		SelfLoopProb: pick(r, 0.0, 0.2), NilTraitProb: pick(r, 0.0, 0.3, 1.0), HiddenFirst: r.Intn(3) == 0,
		AllowBackEdges: r.Intn(8) == 0, Activations: r.Intn(2) == 0, SensorsLate: r.Intn(8) == 0,
		IdGaps: r.Intn(6) == 0,
	}
}

// buildGenome builds a well-formed hand-made genome from the spec
func buildGenome(r *rand.Rand, sp genomeSpec, id int) *genetics.Genome {
	s := &SnapGenome{Id: id}
	for i := 0; i < sp.Traits; i++ {
		t := SnapTrait{Id: sp.TraitBase + i, Params: make([]uint64, neat.NumTraitParams)}
		for j := range t.Params {
			if r.Intn(3) == 0 {
				t.Params[j] = fbits(math.Round(r.Float64()*1000) / 1000)
				if sp.IdGaps && r.Intn(2) == 0 {
					// (a hand-built genome may carry negative trait parameters; only the trait mutation lifts them to zero)
					t.Params[j] = fbits(-math.Round(r.Float64()*1000)/1000 + 0)
				}
			}
		}
		s.Traits = append(s.Traits, t)
	}
	traitFor := func() int {
		if r.Float64() < sp.NilTraitProb {
			return 0
		}
		return sp.TraitBase + r.Intn(sp.Traits)
	}
	nextId := 1
	step := func() {
		nextId++
		if sp.IdGaps {
			nextId += r.Intn(4) * r.Intn(4)
			if r.Intn(12) == 0 {
				nextId += pick(r, 30000, 32768, 65536, 1<<20) // (node ids are ints; a population that split very many genes is far up)
			}
		}
	}
	if sp.IdGaps {
		nextId = 1 + r.Intn(12)
	}
	var sensors, neurons []int
	addSensor := func(neuron network.NodeNeuronType) {
		s.Nodes = append(s.Nodes, SnapNode{Id: nextId, Neuron: byte(neuron), Act: byte(neatmath.NullActivation), TraitId: traitFor()})
		sensors = append(sensors, nextId)
		step()
	}
	addSensors := func() {
		if sp.Bias == 1 {
			addSensor(network.BiasNeuron)
		}
		for i := 0; i < sp.Inputs; i++ {
			addSensor(network.InputNeuron)
		}
		if sp.Bias == 2 {
			addSensor(network.BiasNeuron)
		}
	}
	if !sp.SensorsLate {
		addSensors()
	}
	addNeuron := func(neuron network.NodeNeuronType) {
		act := neatmath.SigmoidSteepenedActivation
		if sp.Activations {
			act = scalarActivations[r.Intn(len(scalarActivations))]
		}
		s.Nodes = append(s.Nodes, SnapNode{Id: nextId, Neuron: byte(neuron), Act: byte(act), TraitId: traitFor()})
		neurons = append(neurons, nextId)
		step()
	}
	var hidden, outputs []int
	if sp.SensorsLate {
		for i := 0; i < sp.Outputs; i++ {
			addNeuron(network.OutputNeuron)
			outputs = append(outputs, neurons[len(neurons)-1])
		}
		addSensors()
		for i := 0; i < sp.Hidden; i++ {
			addNeuron(network.HiddenNeuron)
			hidden = append(hidden, neurons[len(neurons)-1])
		}
	} else if sp.HiddenFirst {
		for i := 0; i < sp.Hidden; i++ {
			addNeuron(network.HiddenNeuron)
			hidden = append(hidden, neurons[len(neurons)-1])
		}
	}
	if !sp.SensorsLate {
		for i := 0; i < sp.Outputs; i++ {
			addNeuron(network.OutputNeuron)
			outputs = append(outputs, neurons[len(neurons)-1])
		}
	}
	if !sp.HiddenFirst && !sp.SensorsLate {
		for i := 0; i < sp.Hidden; i++ {
			addNeuron(network.HiddenNeuron)
			hidden = append(hidden, neurons[len(neurons)-1])
		}
	}
	// topological rank for forward genes: sensors 0, hidden by index 1.., outputs last
	rank := map[int]int{}
	for _, id := range sensors {
		rank[id] = 0
	}
	for i, id := range hidden {
		rank[id] = 1 + i
	}
	for _, id := range outputs {
		rank[id] = 1000
	}
	all := append(append([]int{}, sensors...), neurons...)
	innov := int64(0)
	type key struct {
		in, out int
		rec     bool
	}
	seen := map[key]bool{}
	addGene := func(in, out int, rec bool) {
		k := key{in, out, rec}
		if seen[k] {
			return
		}
		seen[k] = true
		innov += int64(1 + r.Intn(3)/2)
		w := math.Round((r.Float64()*4-2)*1000)/1000 + 0 // + 0 turns a negative zero into zero (C15 assumption: no negative zero)
		s.Genes = append(s.Genes, SnapGene{In: in, Out: out, Rec: rec, Innov: innov, W: fbits(w), Mut: fbits(w),
			En: r.Float64() >= sp.DisabledProb, TraitId: traitFor()})
	}
	for _, in := range all {
		for _, out := range neurons {
			if r.Float64() >= sp.GeneProb {
				continue
			}
			if in == out {
				if r.Float64() < sp.SelfLoopProb {
					addGene(in, out, true)
				}
				continue
			}
			forward := rank[in] < rank[out]
			if forward {
				addGene(in, out, false)
				if r.Float64() < sp.RecurProb*0.3 {
					addGene(in, out, true) // the same pair under the other flag is a different link
				}
			} else if r.Float64() < sp.RecurProb {
				addGene(in, out, true)
			} else if sp.AllowBackEdges && r.Intn(3) == 0 {
				addGene(in, out, false)
			}
		}
	}
	if len(s.Genes) == 0 {
		addGene(sensors[0], outputs[0], false)
	}
	// genes were generated in (in, out) order: shuffle the link->innovation assignment keeping innovations ascending
	perm := r.Perm(len(s.Genes))
	shuffled := make([]SnapGene, len(s.Genes))
	for i, p := range perm {
		shuffled[i] = s.Genes[p]
		shuffled[i].Innov = s.Genes[i].Innov
	}
	s.Genes = shuffled
	// make sure at least one gene is enabled
	anyEnabled := false
	for _, g := range s.Genes {
		anyEnabled = anyEnabled || g.En
	}
	if !anyEnabled {
		s.Genes[0].En = true
	}
	return buildFromSnap(s)
}

// startGenome returns a start genome of one of the generator classes: shipped file, hand-built, randomly constructed
func startGenome(r *rand.Rand, o *neat.Options) (*genetics.Genome, string) {
	g, src := startGenomePlain(r, o)
	if r.Intn(6) == 0 {
		heavyWeights(r, g)
		src += "+heavy-weights"
	}
	if r.Intn(10) == 0 && len(g.ControlGenes) == 0 {
		// innovation numbers are int64: a start genome taken from a population that has issued very many of them (or written
		// elsewhere) carries numbers beyond 2^53, which no float64 holds exactly
		base := pick(r, int64(1)<<53, int64(1)<<62)
		for _, gn := range g.Genes {
			gn.InnovationNum += base
		}
		src += "+huge-innovation-numbers"
	}
	return g, src
}

// heavyWeights gives the genome the weights of a trained network (tens to hundreds) instead of the zeros / small values of a
// blank one: the copies a population is spawned from it then differ by much more than the mutation power
func heavyWeights(r *rand.Rand, g *genetics.Genome) {
	{
		f := pick(r, 5.0, 20.0, 100.0)
		for _, gn := range g.Genes {
			mirrored := gn.MutationNum == gn.Link.ConnectionWeight
			if gn.Link.ConnectionWeight == 0 {
				gn.Link.ConnectionWeight = r.NormFloat64()
			}
			gn.Link.ConnectionWeight = math.Round(gn.Link.ConnectionWeight*f*1000)/1000 + 0
			if mirrored {
				gn.MutationNum = gn.Link.ConnectionWeight
			}
		}
	}
}

func startGenomePlain(r *rand.Rand, o *neat.Options) (*genetics.Genome, string) {
	switch r.Intn(10) {
	case 0, 1, 2:
		name := shippedGenomes[r.Intn(len(shippedGenomes))]
		g, err := loadShippedGenome(name)
		if err != nil {
			panic(fmt.Sprintf("harness: failed to load shipped genome %s: %v", name, err))
		}
		if kind, msg := wf(g, nil, false); kind != "" {
			panic(fmt.Sprintf("harness: shipped genome %s is not well-formed: %s", name, msg))
		}
		return g, "file:" + name
	case 3, 4:
		for try := 0; try < 50; try++ {
			in, out, maxHidden := 2+r.Intn(3), 1+r.Intn(2), 1+r.Intn(4)
			g, err := genetics.VerifNewGenomeRand(1, in, out, r.Intn(maxHidden), maxHidden, r.Intn(2) == 0, 0.3+r.Float64()*0.6, o)
			if err == nil && len(g.Genes) > 0 {
				return g, "rand"
			}
		}
		fallthrough
	default:
		return buildGenome(r, genSpec(r), 1), "built"
	}
}

// ---------------------------------------------------------------------------------------------------------------------
// Well-formedness monitor (C01)

type ioSet map[int]byte

func ioNodesOf(s *SnapGenome) ioSet {
	io := ioSet{}
	for _, n := range s.Nodes {
		if n.Neuron != byte(network.HiddenNeuron) {
			io[n.Id] = n.Neuron
		}
	}
	return io
}

// wf checks well-formedness of the genome as stated by C01; returns kind and description of the first defect found
func wf(g *genetics.Genome, ancestors ioSet, express bool) (string, string) {
	if g == nil {
		return "nil-genome", "operator returned nil genome"
	}
	own := map[*network.NNode]bool{}
	lastId := math.MinInt32
	for i, n := range g.Nodes {
		if n == nil {
			return "nil-node", fmt.Sprintf("node #%d is nil", i)
		}
		if n.Id <= lastId {
			return "node-order", fmt.Sprintf("node id %d follows %d", n.Id, lastId)
		}
		lastId = n.Id
		if g.NodeWithId(n.Id) != n {
			return "node-lookup", fmt.Sprintf("NodeWithId(%d) does not return the genome's node", n.Id)
		}
		own[n] = true
		if n.Trait != nil && !ownTrait(g, n.Trait) {
			return "node-trait", fmt.Sprintf("node %d refers to a trait which is not genome's own", n.Id)
		}
	}
	if g.VerifNodeMapSize() != len(g.Nodes) {
		return "node-lookup", fmt.Sprintf("node lookup view has %d entries for %d nodes", g.VerifNodeMapSize(), len(g.Nodes))
	}
	last := int64(math.MinInt64)
	type key struct {
		in, out int
		rec     bool
	}
	seen := map[key]int64{}
	for i, gn := range g.Genes {
		if gn == nil || gn.Link == nil || gn.Link.InNode == nil || gn.Link.OutNode == nil {
			return "nil-gene", fmt.Sprintf("gene #%d is nil or has nil link/endpoint", i)
		}
		if gn.InnovationNum <= last {
			return "gene-order", fmt.Sprintf("gene innovation %d follows %d", gn.InnovationNum, last)
		}
		last = gn.InnovationNum
		k := key{gn.Link.InNode.Id, gn.Link.OutNode.Id, gn.Link.IsRecurrent}
		if prev, ok := seen[k]; ok {
			return "dup-link", fmt.Sprintf("genes %d and %d both join %d->%d (recurrent=%v)", prev, gn.InnovationNum, k.in, k.out, k.rec)
		}
		seen[k] = gn.InnovationNum
		if !own[gn.Link.InNode] || !own[gn.Link.OutNode] {
			return "foreign-endpoint", fmt.Sprintf("gene %d (%d->%d) endpoint is not one of genome's own nodes", gn.InnovationNum, k.in, k.out)
		}
		if gn.Link.OutNode.IsSensor() {
			return "into-sensor", fmt.Sprintf("gene %d ends in sensor node %d", gn.InnovationNum, k.out)
		}
		if gn.Link.Trait != nil && !ownTrait(g, gn.Link.Trait) {
			return "gene-trait", fmt.Sprintf("gene %d refers to a trait which is not genome's own", gn.InnovationNum)
		}
	}
	for id, role := range ancestors {
		n := g.NodeWithId(id)
		if n == nil {
			return "io-lost", fmt.Sprintf("ancestor's io node %d (role %d) is missing", id, role)
		}
		if byte(n.NeuronType) != role {
			return "io-role", fmt.Sprintf("ancestor's io node %d changed role %d -> %d", id, role, n.NeuronType)
		}
	}
	if express {
		if _, err := g.Genesis(g.Id); err != nil {
			return "genesis", "genome can not be expressed: " + firstLine(err.Error())
		}
	}
	return "", ""
}

func ownTrait(g *genetics.Genome, t *neat.Trait) bool {
	for _, x := range g.Traits {
		if x == t {
			return true
		}
	}
	return false
}

// ---------------------------------------------------------------------------------------------------------------------
// Operator histories: a family of genomes descended from one start genome

type opKind int

const (
	opDuplicate opKind = iota
	opAddNode
	opAddLink
	opConnectSensors
	opLinkWeights
	opRandomTrait
	opLinkTrait
	opNodeTrait
	opToggleEnable
	opReEnable
	opAllNonstructural
	opMateMultipoint
	opMateMultipointAvg
	opMateSinglePoint
	opEndGeneration
	opCount
)

var opNames = []string{"duplicate", "add_node", "add_link", "connect_sensors", "link_weights", "random_trait", "link_trait",
	"node_trait", "toggle_enable", "re_enable", "all_nonstructural", "mate_multipoint", "mate_multipoint_avg",
	"mate_singlepoint", "end_generation"}

func (k opKind) String() string { return opNames[k] }

func (k opKind) isMate() bool {
	return k == opMateMultipoint || k == opMateMultipointAvg || k == opMateSinglePoint
}

type Family struct {
	Opts     *neat.Options
	Pop      *genetics.Population // the innovation registry and node id generator
	Members  []*genetics.Genome
	IO       ioSet
	StartSrc string
	nextId   int
	maxSize  int
	// Ops, when set, restricts the mutators C05 draws from for this family
	Ops []opKind
}

func lastIds(g *genetics.Genome) (int64, int) {
	innov := int64(0)
	for _, gn := range g.Genes {
		if gn.InnovationNum > innov {
			innov = gn.InnovationNum
		}
	}
	nodeId := 0
	for _, n := range g.Nodes {
		if n.Id > nodeId {
			nodeId = n.Id
		}
	}
	for _, cg := range g.ControlGenes {
		if cg.InnovationNum > innov {
			innov = cg.InnovationNum
		}
		if cg.ControlNode != nil && cg.ControlNode.Id > nodeId {
			nodeId = cg.ControlNode.Id
		}
	}
	return innov, nodeId
}

func newFamily(r *rand.Rand, o *neat.Options) *Family {
	start, src := startGenome(r, o)
	return newFamilyFrom(start, src, o)
}

func newFamilyFrom(start *genetics.Genome, src string, o *neat.Options) *Family {
	innov, nodeId := lastIds(start)
	f := &Family{Opts: o, StartSrc: src, maxSize: 24, nextId: 2}
	// the counters as Population.spawn sets them
	f.Pop = genetics.VerifNewEmptyPopulation(innov, int32(nodeId+1))
	f.Members = []*genetics.Genome{start}
	f.IO = ioNodesOf(snapGenome(start))
	return f
}

func (f *Family) add(g *genetics.Genome, r *rand.Rand) {
	// retire oversized genomes
	if len(g.Nodes) > 60 || len(g.Genes) > 250 {
		return
	}
	if len(f.Members) < f.maxSize {
		f.Members = append(f.Members, g)
	} else {
		f.Members[1+r.Intn(len(f.Members)-1)] = g
	}
}

func (f *Family) pickMember(r *rand.Rand) *genetics.Genome {
	return f.Members[r.Intn(len(f.Members))]
}

func (f *Family) newId() int {
	f.nextId++
	return f.nextId
}

// applyMutation applies the mutation operator to the genome (in place)
func (f *Family) applyMutation(op opKind, g *genetics.Genome, r *rand.Rand) (bool, error) {
	switch op {
	case opAddNode:
		return g.VerifMutateAddNode(f.Pop, f.Pop, f.Opts)
	case opAddLink:
		return g.VerifMutateAddLink(f.Pop, 1, f.Opts)
	case opConnectSensors:
		return g.VerifMutateConnectSensors(f.Pop, f.Opts)
	case opLinkWeights:
		pw := r.Float64()
		power := 0.1 + pw*3
		if pw > 0.94 {
			power = 200 + pw*2000 // a strong mutation power: weights far beyond the usual range
		}
		return g.VerifMutateLinkWeights(power, r.Float64(), r.Intn(4) == 0)
	case opRandomTrait:
		return g.VerifMutateRandomTrait(f.Opts)
	case opLinkTrait:
		return g.VerifMutateLinkTrait(1 + r.Intn(3))
	case opNodeTrait:
		return g.VerifMutateNodeTrait(1 + r.Intn(3))
	case opToggleEnable:
		return g.VerifMutateToggleEnable(1 + r.Intn(3))
	case opReEnable:
		return g.VerifMutateGeneReEnable()
	case opAllNonstructural:
		return g.VerifMutateAllNonstructural(f.Opts)
	}
	panic("harness: not a mutation operator")
}

func (f *Family) applyMate(op opKind, a, b *genetics.Genome, id int, fa, fb float64) (*genetics.Genome, error) {
	switch op {
	case opMateMultipoint:
		return a.VerifMateMultipoint(b, id, fa, fb)
	case opMateMultipointAvg:
		return a.VerifMateMultipointAvg(b, id, fa, fb)
	case opMateSinglePoint:
		return a.VerifMateSinglePoint(b, id)
	}
	panic("harness: not a mating operator")
}

// randomOp draws operator with structural ones boosted
func randomOp(r *rand.Rand) opKind {
	x := r.Intn(100)
	switch {
	case x < 6:
		return opDuplicate
	case x < 18:
		return opAddNode
	case x < 32:
		return opAddLink
	case x < 36:
		return opConnectSensors
	case x < 42:
		return opLinkWeights
	case x < 45:
		return opRandomTrait
	case x < 48:
		return opLinkTrait
	case x < 51:
		return opNodeTrait
	case x < 58:
		return opToggleEnable
	case x < 62:
		return opReEnable
	case x < 66:
		return opAllNonstructural
	case x < 76:
		return opMateMultipoint
	case x < 86:
		return opMateMultipointAvg
	case x < 96:
		return opMateSinglePoint
	default:
		return opEndGeneration
	}
}

// grow applies random operator history of given length without monitoring (used by the properties which only need
// evolved genomes as inputs)
func (f *Family) grow(r *rand.Rand, steps int) {
	for i := 0; i < steps; i++ {
		op := randomOp(r)
		switch {
		case op == opEndGeneration:
			f.Pop.VerifClearInnovations()
		case op == opDuplicate:
			if d, err := f.pickMember(r).VerifDuplicate(f.newId()); err == nil {
				f.add(d, r)
			}
		case op.isMate():
			a, b := f.pickMember(r), f.pickMember(r)
			if child, err := f.applyMate(op, a, b, f.newId(), r.Float64(), r.Float64()); err == nil && child != nil && len(child.Genes) > 0 {
				f.add(child, r)
			}
		default:
			if d, err := f.pickMember(r).VerifDuplicate(f.newId()); err == nil {
				if _, err = f.applyMutation(op, d, r); err == nil {
					f.add(d, r)
				}
			}
		}
	}
}

// ---------------------------------------------------------------------------------------------------------------------
// misc

func sortedKeys(m map[string]int64) []string {
	keys := make([]string, 0, len(m))
	for k := range m {
		keys = append(keys, k)
	}
	sort.Strings(keys)
	return keys
}

func genomeText(g *genetics.Genome) string {
	var b bytes.Buffer
	if err := g.Write(&b); err != nil {
		return "unwritable: " + err.Error()
	}
	return b.String()
}

// modularVariants rewires the modules of a snapshot of the shipped modular genome: modules switched off, an input or the
// output node shared by two modules, a third module on top. The module link weights stay 1.0 (all the YAML format expresses).
func modularVariants(r *rand.Rand, s *SnapGenome) {
	if len(s.Modules) < 2 {
		return
	}
	one := fbits(1.0)
	if r.Intn(2) == 0 {
		s.Modules[1].Ins[0] = s.Modules[0].Ins[0] // an input node shared by two modules
	}
	if r.Intn(3) == 0 {
		s.Modules[1].Outs[0] = s.Modules[0].Outs[0] // both modules write the same node
	}
	if r.Intn(2) == 0 {
		last := s.Modules[len(s.Modules)-1]
		hidden := []int{}
		for _, n := range s.Nodes {
			if n.Neuron == byte(network.HiddenNeuron) {
				hidden = append(hidden, n.Id)
			}
		}
		m := SnapModule{CtrlId: last.CtrlId + 1, Act: byte(pick(r, neatmath.MultiplyModuleActivation, neatmath.MaxModuleActivation, neatmath.MinModuleActivation)),
			Innov: last.Innov + 1, Mut: fbits(0.25), En: r.Intn(4) != 0,
			Ins: []int{s.Modules[0].Ins[0], hidden[r.Intn(len(hidden)-1)]}, Outs: []int{hidden[len(hidden)-1]}}
		// (a module's inputs and outputs stay disjoint: the output is the last hidden node, the inputs are drawn from the others)
		if m.Ins[0] == m.Ins[1] {
			m.Ins = m.Ins[:1]
		}
		for range m.Ins {
			m.InW = append(m.InW, one)
		}
		m.OutW = []uint64{one}
		s.Modules = append(s.Modules, m)
	}
}
