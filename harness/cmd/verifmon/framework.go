package main

import (
	"bytes"
	"context"
	"encoding/binary"
	"encoding/json"
	"fmt"
	"hash/fnv"
	"math"
	"math/rand"
	"os"
	"os/exec"
	"path/filepath"
	"runtime"
	"runtime/debug"
	"sort"
	"strings"
	"sync"
	"syscall"
	"time"

	"github.com/yaricom/goNEAT/v4/neat"
)

// ---------------------------------------------------------------------------------------------------------------------
// Property registry

// Prop describes the monitor of one property: a deterministic list of cases (a pure function of the seed and the tier)
// and the function executing one case under the monitor.
type Prop struct {
	ID          string
	Level       string // exploration | fault_enumeration
	DesignRef   string
	Rule        string
	Assumptions []string
	// Cases returns the number of cases for the tier
	Cases func(tier string) int
	// Run executes the case with given index and reports into the context
	Run func(c *Ctx, idx int)
	// Required lists the counters (event classes) which must be observed at least once, otherwise the verdict is inconclusive
	Required []string
	// Exhaustive is set when the case list enumerates a finite space completely
	Exhaustive bool
	// Race tells that children must be run from the binary built with the race detector
	Race bool
	// MaxShards limits the number of child processes (0 - number of CPUs)
	MaxShards int
	// TimeoutSec the wall clock watchdog per child (tier -> seconds); firing is inconclusive
	TimeoutSec func(tier string) int
	// PostChildren is optional parent-side step executed after all children are done (e.g. collecting race reports)
	PostChildren func(p *parentRun)
}

var registry = map[string]*Prop{}

func register(p *Prop) {
	registry[p.ID] = p
}

// ---------------------------------------------------------------------------------------------------------------------
// The case context

type Violation struct {
	Property string                 `json:"property"`
	Kind     string                 `json:"kind"`
	Message  string                 `json:"message"`
	Tier     string                 `json:"tier"`
	Seed     int64                  `json:"seed"`
	Case     int                    `json:"case"`
	Shard    int                    `json:"shard"`
	Detail   map[string]interface{} `json:"detail,omitempty"`
	Replay   string                 `json:"replay,omitempty"`
}

type Ctx struct {
	Prop   *Prop
	Tier   string
	Seed   int64
	Shard  int
	Case   int
	Replay bool
	// G is the generator PRNG of the current case; the library under test uses the global math/rand source which is
	// seeded separately per case, so that the case list does not depend on how many numbers the library consumed
	G *rand.Rand

	evals      int64
	counters   map[string]int64
	distinct   map[uint64]struct{}
	samples    []interface{}
	violations []*Violation
	// violCount counts every call of Violate (also those beyond the stored 20), violBase is its value when the running case
	// began: Violated() speaks about the running case, so that a known finding met in one case does not end the work of the
	// cases which follow in the same shard
	violCount, violBase int
	maxSamples          int
	outDir              string
	// harnessErrors panics raised by harness own code: inconclusive, never a violation
	harnessErrors []string
	// inconclusive reasons reported by the monitor itself (checker timeout, hook never reached)
	inconclusive []string
	// distinctOff mutes Distinct while monitors of other properties are reused as sub-monitors
	distinctOff bool
}

// Inconclusive records that the case could not be decided (never folded into held or violated)
func (c *Ctx) Inconclusive(format string, args ...interface{}) {
	if len(c.inconclusive) < 10 {
		c.inconclusive = append(c.inconclusive, fmt.Sprintf("case %d: ", c.Case)+fmt.Sprintf(format, args...))
	}
	if c.Replay {
		fmt.Printf("  inconclusive: "+format+"\n", args...)
	}
}

func newCtx(p *Prop, tier string, seed int64, shard int) *Ctx {
	return &Ctx{Prop: p, Tier: tier, Seed: seed, Shard: shard, counters: map[string]int64{},
		distinct: map[uint64]struct{}{}, maxSamples: 2}
}

func splitmix(x uint64) uint64 {
	x += 0x9e3779b97f4a7c15
	x = (x ^ (x >> 30)) * 0xbf58476d1ce4e5b9
	x = (x ^ (x >> 27)) * 0x94d049bb133111eb
	return x ^ (x >> 31)
}

func hashString(s string) uint64 {
	h := fnv.New64a()
	_, _ = h.Write([]byte(s))
	return h.Sum64()
}

// caseSeed derives the seed of a case from the run seed, the property and the case index
func caseSeed(seed int64, prop string, idx int) int64 {
	x := splitmix(uint64(seed) ^ splitmix(hashString(prop)) ^ splitmix(uint64(idx)*0x632be59bd9b4e019+1))
	return int64(x >> 1)
}

func (c *Ctx) beginCase(idx int) {
	c.Case = idx
	c.violBase = c.violCount
	cs := caseSeed(c.Seed, c.Prop.ID, idx)
	c.G = rand.New(rand.NewSource(cs))
	// the library's global source
	rand.Seed(int64(splitmix(uint64(cs)) >> 1))
	// the log level is an option setting like any other (process-wide): one case in eight runs at the debug level, whose extra
	// code paths then execute (the loggers themselves are silenced in main)
	if splitmix(uint64(cs)+0x10c)%8 == 0 {
		neat.LogLevel = neat.LogLevelDebug
		c.Count("cases.at_debug_log_level", 1)
	} else {
		neat.LogLevel = neat.LogLevelError
	}
}

// Eval counts evaluations (cases / operator applications / epochs / queries - as stated in the rule of the property)
func (c *Ctx) Eval(n int) {
	if !c.distinctOff {
		c.evals += int64(n)
	}
}

// Count increments free-form coverage counter
func (c *Ctx) Count(key string, n int) { c.counters[key] += int64(n) }

// Distinct registers fingerprint of a non-trivial case
func (c *Ctx) Distinct(fp uint64) {
	if !c.distinctOff {
		c.distinct[fp] = struct{}{}
	}
}

// Sample keeps a few of actual cases for the evidence
func (c *Ctx) Sample(v interface{}) {
	if len(c.samples) < c.maxSamples {
		c.samples = append(c.samples, jsonSafe(v))
	}
}

func (c *Ctx) WantSample() bool { return len(c.samples) < c.maxSamples }

// Violate records violation of the property with witness details. The kind is a short stable key of the failed
// assertion used for fingerprinting (known findings are matched by property + kind + key detail).
// jsonSafe replaces the values encoding/json refuses (NaN, +-Inf) by their text, so that a witness which contains them can
// not take the result file of the whole shard with it
func jsonSafe(v interface{}) interface{} {
	switch x := v.(type) {
	case float64:
		if math.IsNaN(x) || math.IsInf(x, 0) {
			return fmt.Sprint(x)
		}
		return x
	case []float64:
		out := make([]interface{}, len(x))
		for i, f := range x {
			out[i] = jsonSafe(f)
		}
		return out
	case map[string]interface{}:
		for k, e := range x {
			x[k] = jsonSafe(e)
		}
		return x
	case map[string]float64:
		out := map[string]interface{}{}
		for k, f := range x {
			out[k] = jsonSafe(f)
		}
		return out
	case []interface{}:
		for i, e := range x {
			x[i] = jsonSafe(e)
		}
		return x
	}
	return v
}

func (c *Ctx) Violate(kind string, detail map[string]interface{}, format string, args ...interface{}) {
	if detail != nil {
		detail = jsonSafe(detail).(map[string]interface{})
	}
	v := &Violation{Property: c.Prop.ID, Kind: kind, Message: fmt.Sprintf(format, args...), Tier: c.Tier, Seed: c.Seed,
		Case: c.Case, Shard: c.Shard, Detail: detail}
	c.violCount++
	// keep at most 20 violations per shard, the first ones matter
	if len(c.violations) < 20 {
		c.violations = append(c.violations, v)
	}
	if c.Replay {
		fmt.Printf("  violated: [%s] %s\n", kind, v.Message)
		if os.Getenv("VERIF_REPLAY_DETAIL") != "" {
			if b, err := json.MarshalIndent(detail, "  ", " "); err == nil {
				fmt.Printf("  detail: %s\n", b)
			}
		}
	}
}

func (c *Ctx) Violated() bool { return c.violCount > c.violBase }

// ---------------------------------------------------------------------------------------------------------------------
// Paths

func verifRoot() string {
	if r := os.Getenv("VERIF_ROOT"); r != "" {
		return r
	}
	return "/verif"
}

func workDir(prop string) string   { return filepath.Join(verifRoot(), ".work", prop) }
func replayDir(prop string) string { return filepath.Join(verifRoot(), "replays", prop) }

// ---------------------------------------------------------------------------------------------------------------------
// Child

type childResult struct {
	Shard         int                    `json:"shard"`
	Done          bool                   `json:"done"`
	CasesRun      int                    `json:"cases_run"`
	Evals         int64                  `json:"evals"`
	Counters      map[string]int64       `json:"counters"`
	Samples       []interface{}          `json:"samples"`
	Violations    []*Violation           `json:"violations"`
	Extra         map[string]interface{} `json:"extra,omitempty"`
	HarnessErrors []string               `json:"harness_errors,omitempty"`
	Inconclusive  []string               `json:"inconclusive,omitempty"`
}

func runCaseGuarded(p *Prop, c *Ctx, idx int) {
	defer func() {
		if r := recover(); r != nil {
			st := string(debug.Stack())
			kind := "panic"
			// a panic raised by harness own code is a harness bug, not a property violation: tell them apart by the
			// innermost non-runtime frame
			origin := panicOrigin(st)
			if strings.HasPrefix(origin, "main.") {
				// harness own fault (or library data the harness could not digest): never a verdict about the property
				c.harnessErrors = append(c.harnessErrors, fmt.Sprintf("case %d: %v at %s\n%s", idx, r, origin, trimStack(st)))
				if c.Replay {
					fmt.Printf("  harness error: %v at %s\n%s\n", r, origin, trimStack(st))
				}
				return
			}
			c.Violate(kind, map[string]interface{}{"panic": fmt.Sprint(r), "origin": origin, "stack": trimStack(st)},
				"panic escaped a library call: %v (at %s)", r, origin)
		}
	}()
	c.beginCase(idx)
	p.Run(c, idx)
}

func trimStack(st string) string {
	lines := strings.Split(st, "\n")
	if len(lines) > 60 {
		lines = lines[:60]
	}
	return strings.Join(lines, "\n")
}

// panicOrigin returns the first frame below the panic call
func panicOrigin(st string) string {
	lines := strings.Split(st, "\n")
	seenPanic := false
	for i := 0; i < len(lines); i++ {
		l := lines[i]
		if strings.HasPrefix(l, "panic(") {
			seenPanic = true
			continue
		}
		if seenPanic && !strings.HasPrefix(l, "\t") && !strings.HasPrefix(l, "runtime.") && l != "" {
			return strings.TrimSpace(l)
		}
	}
	return "unknown"
}

func runChild(propId, tier string, seed int64, shard, nshards int, outDir string) int {
	p, ok := registry[propId]
	if !ok {
		fmt.Fprintf(os.Stderr, "unknown property %s\n", propId)
		return 3
	}
	debug.SetMaxStack(64 << 20)
	c := newCtx(p, tier, seed, shard)
	c.outDir = outDir
	n := p.Cases(tier)
	cur, err := os.OpenFile(filepath.Join(outDir, fmt.Sprintf("current-%d", shard)), os.O_CREATE|os.O_WRONLY|os.O_TRUNC, 0o644)
	if err != nil {
		fmt.Fprintln(os.Stderr, err)
		return 3
	}
	res := childResult{Shard: shard}
	for idx := shard; idx < n; idx += nshards {
		// log the case before running it so that a fatal error can be attributed
		_, _ = cur.WriteAt([]byte(fmt.Sprintf("%-12d", idx)), 0)
		runCaseGuarded(p, c, idx)
		res.CasesRun++
	}
	_ = cur.Close()
	res.Done = true
	res.Evals = c.evals
	res.Counters = c.counters
	res.Samples = c.samples
	res.Violations = c.violations
	res.HarnessErrors = c.harnessErrors
	res.Inconclusive = c.inconclusive
	// persist replay files for violations
	for _, v := range res.Violations {
		v.Replay = writeReplay(v)
	}
	// distinct fingerprints
	fps := make([]byte, 0, 8*len(c.distinct))
	for fp := range c.distinct {
		fps = binary.LittleEndian.AppendUint64(fps, fp)
	}
	if err = os.WriteFile(filepath.Join(outDir, fmt.Sprintf("distinct-%d.bin", shard)), fps, 0o644); err != nil {
		fmt.Fprintln(os.Stderr, err)
		return 3
	}
	data, err := json.Marshal(res)
	if err != nil {
		fmt.Fprintln(os.Stderr, "failed to encode result:", err)
		return 3
	}
	if err = os.WriteFile(filepath.Join(outDir, fmt.Sprintf("result-%d.json", shard)), data, 0o644); err != nil {
		fmt.Fprintln(os.Stderr, err)
		return 3
	}
	return 0
}

func writeReplay(v *Violation) string {
	dir := replayDir(v.Property)
	_ = os.MkdirAll(dir, 0o755)
	name := fmt.Sprintf("%s-%s-%d-case%d-%x.json", v.Property, v.Tier, v.Seed, v.Case, hashString(v.Kind+"|"+violationKey(v))&0xffffff)
	path := filepath.Join(dir, name)
	data, _ := json.MarshalIndent(v, "", " ")
	_ = os.WriteFile(path, data, 0o644)
	return path
}

// ---------------------------------------------------------------------------------------------------------------------
// Replay

func runReplay(path string) int {
	data, err := os.ReadFile(path)
	if err != nil {
		fmt.Fprintln(os.Stderr, err)
		return 3
	}
	var v Violation
	if err = json.Unmarshal(data, &v); err != nil {
		fmt.Fprintln(os.Stderr, err)
		return 3
	}
	p, ok := registry[v.Property]
	if !ok {
		fmt.Fprintf(os.Stderr, "unknown property %s\n", v.Property)
		return 3
	}
	if v.Case < 0 {
		// the witness is not a single case (race report): re-run the whole check at the recorded seed
		fmt.Printf("replaying %s %s at seed %d: recorded [%s] %s\n", v.Property, v.Tier, v.Seed, v.Kind, firstLine(v.Message))
		_ = os.Setenv("VERIF_SEED", fmt.Sprint(v.Seed))
		return runParent(v.Property, v.Tier)
	}
	debug.SetMaxStack(64 << 20)
	fmt.Printf("replaying %s case %d (tier %s, seed %d): recorded [%s] %s\n", v.Property, v.Case, v.Tier, v.Seed, v.Kind, v.Message)
	c := newCtx(p, v.Tier, v.Seed, v.Shard)
	c.Replay = true
	c.outDir = workDir(v.Property)
	_ = os.MkdirAll(c.outDir, 0o755)
	runCaseGuarded(p, c, v.Case)
	if c.Violated() {
		fmt.Printf("VIOLATION property=%s replay=%s\n", v.Property, path)
		return 1
	}
	fmt.Println("not reproduced: the case passes on the current tree")
	return 0
}

// ---------------------------------------------------------------------------------------------------------------------
// Parent

type parentRun struct {
	prop       *Prop
	tier       string
	seed       int64
	dir        string
	nshards    int
	results    []*childResult
	violations []*Violation
	inconcl    []string
	counters   map[string]int64
	extra      map[string]interface{}
}

type knownFindings struct {
	Findings []struct {
		Property string `json:"property"`
		Kind     string `json:"kind"`
		Key      string `json:"key"`
		What     string `json:"what"`
	} `json:"findings"`
	Fixed []string `json:"fixed"`
}

func loadKnownFindings() *knownFindings {
	kf := &knownFindings{}
	data, err := os.ReadFile(filepath.Join(verifRoot(), "known_findings.json"))
	if err != nil {
		return kf
	}
	_ = json.Unmarshal(data, kf)
	return kf
}

func violationKey(v *Violation) string {
	if v.Detail != nil {
		if k, ok := v.Detail["key"]; ok {
			return fmt.Sprint(k)
		}
	}
	return ""
}

func envSeed() int64 {
	seed := int64(20260929)
	if s := os.Getenv("VERIF_SEED"); s != "" {
		var x int64
		if _, err := fmt.Sscan(s, &x); err == nil {
			seed = x
		}
	}
	return seed
}

func runParent(propId, tier string) int {
	p, ok := registry[propId]
	if !ok {
		fmt.Fprintf(os.Stderr, "unknown property %s\n", propId)
		return 3
	}
	if tier != "quick" && tier != "thorough" {
		usage()
	}
	start := time.Now()
	seed := envSeed()
	dir := workDir(propId)
	_ = os.RemoveAll(dir)
	if err := os.MkdirAll(dir, 0o755); err != nil {
		fmt.Fprintln(os.Stderr, err)
		return 3
	}
	// replays of the previous run of this property are stale
	_ = os.RemoveAll(replayDir(propId))

	n := p.Cases(tier)
	nshards := runtime.NumCPU()
	if nshards > 16 {
		nshards = 16
	}
	if p.MaxShards > 0 && nshards > p.MaxShards {
		nshards = p.MaxShards
	}
	if nshards > n {
		nshards = n
	}
	if nshards < 1 {
		nshards = 1
	}
	pr := &parentRun{prop: p, tier: tier, seed: seed, dir: dir, nshards: nshards, counters: map[string]int64{}, extra: map[string]interface{}{}}

	self, err := os.Executable()
	if err != nil {
		fmt.Fprintln(os.Stderr, err)
		return 3
	}
	if p.Race {
		if rb := os.Getenv("VERIFMON_RACE"); rb != "" {
			self = rb
		} else {
			self = filepath.Join(filepath.Dir(self), "verifmon-race")
		}
	}
	// generous wall-clock watchdog (firing is inconclusive, never a verdict about the property)
	timeout := 1800
	if tier == "thorough" {
		timeout = 7200
	}
	if p.TimeoutSec != nil {
		timeout = p.TimeoutSec(tier)
	}

	type childExit struct {
		shard    int
		err      error
		timedOut bool
	}
	exits := make([]childExit, nshards)
	var wg sync.WaitGroup
	for s := 0; s < nshards; s++ {
		wg.Add(1)
		go func(s int) {
			defer wg.Done()
			ctx, cancel := context.WithTimeout(context.Background(), time.Duration(timeout)*time.Second)
			defer cancel()
			cmd := exec.CommandContext(ctx, self, "child", propId, tier, fmt.Sprint(seed), fmt.Sprint(s), fmt.Sprint(nshards), dir)
			cmd.Cancel = func() error { return cmd.Process.Signal(syscall.SIGQUIT) }
			cmd.WaitDelay = 10 * time.Second
			cmd.Env = append(os.Environ(), childEnv(p, dir, s)...)
			errFile, _ := os.Create(filepath.Join(dir, fmt.Sprintf("stderr-%d.log", s)))
			outFile, _ := os.Create(filepath.Join(dir, fmt.Sprintf("stdout-%d.log", s)))
			cmd.Stderr = errFile
			cmd.Stdout = outFile
			e := cmd.Run()
			_ = errFile.Close()
			_ = outFile.Close()
			exits[s] = childExit{shard: s, err: e, timedOut: ctx.Err() == context.DeadlineExceeded}
		}(s)
	}
	wg.Wait()

	// collect
	distinct := map[uint64]struct{}{}
	var evals int64
	var samples []interface{}
	casesRun := 0
	for s := 0; s < nshards; s++ {
		res := &childResult{}
		data, rerr := os.ReadFile(filepath.Join(dir, fmt.Sprintf("result-%d.json", s)))
		if rerr == nil {
			rerr = json.Unmarshal(data, res)
		}
		if rerr != nil || !res.Done {
			// the child died before finishing
			cur := readCurrent(dir, s)
			stderr := tailFile(filepath.Join(dir, fmt.Sprintf("stderr-%d.log", s)), 200)
			if exits[s].timedOut {
				pr.inconcl = append(pr.inconcl, fmt.Sprintf("watchdog fired for shard %d at case %d", s, cur))
			} else if sig := fatalSignature(stderr); sig != "" {
				v := &Violation{Property: propId, Kind: "fatal", Tier: tier, Seed: seed, Case: cur, Shard: s,
					Message: "child process died with " + sig,
					Detail:  map[string]interface{}{"stderr": stderr}}
				v.Replay = writeReplay(v)
				pr.violations = append(pr.violations, v)
			} else {
				pr.inconcl = append(pr.inconcl, fmt.Sprintf("shard %d died without result (%v): %s", s, exits[s].err, lastLine(stderr)))
			}
			continue
		}
		pr.results = append(pr.results, res)
		evals += res.Evals
		casesRun += res.CasesRun
		for k, v := range res.Counters {
			pr.counters[k] += v
		}
		if len(samples) < 4 {
			for _, smp := range res.Samples {
				if len(samples) < 4 {
					samples = append(samples, smp)
				}
			}
		}
		pr.violations = append(pr.violations, res.Violations...)
		for i, reason := range res.Inconclusive {
			if i < 3 {
				pr.inconcl = append(pr.inconcl, reason)
			}
		}
		for i, he := range res.HarnessErrors {
			if i < 2 {
				pr.inconcl = append(pr.inconcl, "harness error: "+firstLine(he))
			}
			if i == 0 && s == 0 {
				fmt.Fprintln(os.Stderr, he)
			}
		}
		if fp, ferr := os.ReadFile(filepath.Join(dir, fmt.Sprintf("distinct-%d.bin", s))); ferr == nil {
			for i := 0; i+8 <= len(fp); i += 8 {
				distinct[binary.LittleEndian.Uint64(fp[i:])] = struct{}{}
			}
		}
	}
	if p.PostChildren != nil {
		p.PostChildren(pr)
	}
	if casesRun != n && len(pr.inconcl) == 0 && len(pr.violations) == 0 {
		pr.inconcl = append(pr.inconcl, fmt.Sprintf("only %d of %d cases were run", casesRun, n))
	}
	for _, req := range p.Required {
		if pr.counters[req] == 0 {
			pr.inconcl = append(pr.inconcl, fmt.Sprintf("required event class %q was never observed", req))
		}
	}
	if len(distinct) < 2 {
		pr.inconcl = append(pr.inconcl, fmt.Sprintf("only %d distinct non-trivial cases observed", len(distinct)))
	}

	// classify violations against known findings
	kf := loadKnownFindings()
	var newViolations []*Violation
	known := map[string]string{}
	for _, v := range pr.violations {
		matched := false
		for _, f := range kf.Findings {
			if f.Property == v.Property && f.Kind == v.Kind && (f.Key == "" || f.Key == violationKey(v)) {
				known[f.Property+" "+f.Kind+" "+f.Key] = f.What
				matched = true
				break
			}
		}
		if !matched {
			newViolations = append(newViolations, v)
		}
	}

	// evidence
	wall := time.Since(start).Seconds()
	coverage := map[string]interface{}{
		"evaluations":         evals,
		"distinct_nontrivial": len(distinct),
		"rule":                p.Rule,
		"samples":             samples,
		"cases":               n,
		"cases_run":           casesRun,
		"shards":              nshards,
		"observed":            pr.counters,
	}
	if p.Exhaustive {
		coverage["exhaustive"] = true
	}
	for k, v := range pr.extra {
		coverage[k] = v
	}
	if len(pr.inconcl) > 0 {
		coverage["inconclusive"] = pr.inconcl
	}
	if samples == nil {
		coverage["samples"] = []interface{}{}
	}
	ev := map[string]interface{}{
		"property_id": propId,
		"tier":        tier,
		"seed":        seed,
		"level":       p.Level,
		"coverage":    coverage,
		"assumptions": p.Assumptions,
		"wall_s":      wall,
		"violations":  len(newViolations),
	}
	if len(known) > 0 {
		ev["known_findings_observed"] = len(known)
	}
	_ = os.MkdirAll(filepath.Join(verifRoot(), "evidence"), 0o755)
	data, _ := json.MarshalIndent(ev, "", " ")
	if err = os.WriteFile(filepath.Join(verifRoot(), "evidence", propId+".json"), data, 0o644); err != nil {
		fmt.Fprintln(os.Stderr, err)
		return 3
	}

	// verdict
	keys := make([]string, 0, len(known))
	for k := range known {
		keys = append(keys, k)
	}
	sort.Strings(keys)
	for _, k := range keys {
		fmt.Printf("KNOWN-FINDING: property=%s %s\n", propId, known[k])
	}
	if len(newViolations) > 0 {
		seen := map[string]bool{}
		printed := 0
		for _, v := range newViolations {
			k := v.Kind + "|" + violationKey(v)
			if seen[k] || printed >= 8 {
				continue
			}
			seen[k] = true
			printed++
			fmt.Printf("VIOLATION property=%s replay=%s\n", propId, v.Replay)
			fmt.Printf("  [%s] %s\n", v.Kind, firstLine(v.Message))
		}
		fmt.Printf("%s %s: VIOLATED (%d violations in %d cases, %d evaluations, %.1fs)\n", propId, tier, len(newViolations), casesRun, evals, wall)
		return 1
	}
	if len(pr.inconcl) > 0 {
		for _, r := range pr.inconcl {
			fmt.Printf("INCONCLUSIVE property=%s reason=%s\n", propId, r)
		}
		return 2
	}
	fmt.Printf("%s %s: held on %d cases, %d evaluations, %d distinct non-trivial (seed %d, %d shards, %.1fs) %s\n",
		propId, tier, casesRun, evals, len(distinct), seed, nshards, wall, summarize(pr.counters))
	return 0
}

func childEnv(p *Prop, dir string, shard int) []string {
	if p.Race {
		return []string{fmt.Sprintf("GORACE=halt_on_error=0 log_path=%s", filepath.Join(dir, fmt.Sprintf("race-%d", shard)))}
	}
	return nil
}

func summarize(counters map[string]int64) string {
	keys := make([]string, 0, len(counters))
	for k := range counters {
		keys = append(keys, k)
	}
	sort.Strings(keys)
	var b bytes.Buffer
	for i, k := range keys {
		if i >= 14 {
			b.WriteString(" ...")
			break
		}
		fmt.Fprintf(&b, " %s=%d", k, counters[k])
	}
	return b.String()
}

func firstLine(s string) string {
	if i := strings.IndexByte(s, '\n'); i >= 0 {
		return s[:i]
	}
	return s
}

func lastLine(s string) string {
	s = strings.TrimSpace(s)
	if i := strings.LastIndexByte(s, '\n'); i >= 0 {
		return s[i+1:]
	}
	return s
}

func readCurrent(dir string, shard int) int {
	data, err := os.ReadFile(filepath.Join(dir, fmt.Sprintf("current-%d", shard)))
	if err != nil {
		return -1
	}
	var idx int
	if _, err = fmt.Sscan(strings.TrimSpace(string(data)), &idx); err != nil {
		return -1
	}
	return idx
}

func tailFile(path string, lines int) string {
	data, err := os.ReadFile(path)
	if err != nil {
		return ""
	}
	// keep the head: the fatal signature is printed first
	all := strings.Split(string(data), "\n")
	if len(all) > lines {
		all = all[:lines]
	}
	return strings.Join(all, "\n")
}

// fatalSignature tells whether stderr of a died child carries signature of Go fatal error or unrecovered panic
func fatalSignature(stderr string) string {
	for _, sig := range []string{"fatal error: stack overflow", "goroutine stack exceeds", "fatal error: concurrent map",
		"fatal error: checkptr", "fatal error: all goroutines are asleep", "fatal error:", "panic:"} {
		if strings.Contains(stderr, sig) {
			return sig
		}
	}
	return ""
}
