package main

import (
	"fmt"
	"math/rand"
	"os"
	"path/filepath"
	"reflect"
	"regexp"
	"runtime"
	"sort"
	"strings"
	"sync"
	"sync/atomic"
	"time"

	"github.com/anishathalye/porcupine"
	"github.com/yaricom/goNEAT/v4/neat"
	"github.com/yaricom/goNEAT/v4/neat/genetics"
)

// C16 - the parallel epoch executor is race-free and preserves all population guarantees.
// Engine 1: the Go race detector (children are run from the -race build, reports are collected by the parent).
// Engine 2: well-formedness, population and innovation-registry monitors after every parallel epoch.
// Engine 3: linearizability (porcupine) of recorded histories of the shared innovation registry.

func init() {
	register(&Prop{
		ID: "C16", Level: "exploration", DesignRef: "DESIGN.md section 4 C16",
		Rule: "cases i%3 != 2: a scenario of 12-30 parallel epochs under the race detector with 1..PopSize species (threshold sweep), GOMAXPROCS in " +
			"{1,2,4,16}, boosted structural mutation and interspecies mating, PRNG-chosen delays injected at the Yield hook (between the scan " +
			"of the innovation record and the issue of a number) and at ReproduceStart; after every epoch the C01 / C02 / C03 monitors run; " +
			"cases i%6 == 1: 10 (quick) / 25 (thorough) cold starts - two-epoch scenarios on brand-new Options / Population objects with (nearly) every " +
			"organism its own species and structural mutation forced, so that lazily initialised shared state is first touched by many goroutines at once; " +
			"cases i%3 == 2: 20 (quick) / 60 (thorough) histories of 8-16 goroutines x <= 6 calls of NextInnovationNumber, NextNodeId, " +
			"StoreInnovation, Innovations on a real Population, recorded at the client boundary and checked by porcupine against sequential " +
			"models (two counters, one append-only list). Any data race report is a violation. evaluations = parallel epochs + histories. " +
			"An epoch is non-trivial if >= 2 species stored innovations in it; distinct by the interleaving signature (order of " +
			"ReproduceStart / InnovationStored / ReproduceEnd events by species).",
		Assumptions: []string{"the race detector reports only races on accesses that happened in the interleavings produced", "non-modular genomes",
			"porcupine timeout (300 s per history; the list partition is handed to it only up to 12 operations, it is decided exactly anyway) is inconclusive, not a violation"},
		Cases: func(tier string) int {
			if tier == "quick" {
				return 96
			}
			return 2400
		},
		Run:          runC16,
		Race:         true,
		Required:     []string{"epochs.parallel", "epochs.multi_species_storing", "histories.checked", "histories.ok", "delays.injected", "gomaxprocs.1", "gomaxprocs.16", "cold_starts", "epochs.cancelled_mid_reproduction"},
		TimeoutSec:   func(tier string) int { return 7200 },
		PostChildren: c16CollectRaces,
	})
}

func runC16(c *Ctx, idx int) {
	if idx%3 == 2 {
		c16Histories(c)
		return
	}
	if idx%6 == 1 {
		c16ColdStarts(c)
		return
	}
	r := c.G
	procs := pick(r, 1, 2, 4, 16)
	prev := runtime.GOMAXPROCS(procs)
	defer runtime.GOMAXPROCS(prev)
	c.Count(fmt.Sprintf("gomaxprocs.%d", procs), 1)
	sc := genScenario(r, true)
	sc.Parallel = true
	sc.Epochs = 12 + r.Intn(19)
	sc.Opts.MutateAddNodeProb = 0.1 + r.Float64()*0.4
	sc.Opts.MutateAddLinkProb = 0.2 + r.Float64()*0.7
	sc.Opts.InterspeciesMateRate = r.Float64() * 0.5
	sc.Opts.CompatThreshold = pick(r, 0.05, 0.3, 1.0, 3.0, 1e6)
	if sc.Opts.PopSize < 8 {
		sc.Opts.PopSize = pick(r, 8, 20, 33, 60)
	}
	if idx%4 == 0 {
		sc.Opts.NewLinkTries = 0
	}
	if sc.Opts.PopSize > 80 {
		sc.Opts.PopSize = 80
	}
	if sc.Opts.BabiesStolen > sc.Opts.PopSize/2 {
		sc.Opts.BabiesStolen = sc.Opts.PopSize / 2
	}
	mon := &parMonitor{
		wf:    &c01Monitor{},
		pop:   &popMonitor{seenSpecies: map[int]*genetics.Species{}},
		innov: &innovMonitor{links: map[int64]linkKey{}, roles: map[int]byte{}},
		delay: r.Intn(3) == 0,
		dseed: r.Int63(),
	}
	sc.CancelAtEnd = r.Intn(2) == 0
	if idx%12 == 4 {
		// a parallel turnover that is cancelled while the species reproduce and is made again (everything survives, so that it
		// can be): the goroutines of the aborted attempt must be gone, what they issued stays part of the history
		sc.Opts.SurvivalThresh = 1.0
		sc.AbortAt = 2 + r.Intn(sc.Epochs-3)
		if sc.RestoreAt == sc.AbortAt {
			sc.RestoreAt = 0
		}
		c.Count("scenarios.with_an_aborted_turnover", 1)
	}
	runScenario(c, sc, mon)
}

// c16ColdStarts runs many very short scenarios, each on a brand-new Options / Population pair, in which many species take
// their first structural mutations of the run in the same epoch: state that is initialised lazily on first use (caches,
// counters, registries) is touched by several reproduction goroutines at once only then.
func c16ColdStarts(c *Ctx) {
	r := c.G
	n := 10
	if c.Tier == "thorough" {
		n = 25
	}
	prev := runtime.GOMAXPROCS(16)
	defer runtime.GOMAXPROCS(prev)
	for k := 0; k < n && !c.Violated(); k++ {
		sc := genScenario(r, true)
		sc.Parallel = true
		sc.RestoreAt = 0
		sc.Epochs = 2
		if sc.Ctor == ctorRead {
			sc.Ctor = ctorSpawn
		}
		sc.Opts.PopSize = pick(r, 20, 40, 60)
		sc.Opts.BabiesStolen = 0
		sc.Opts.CompatThreshold = pick(r, 0.01, 0.05, 0.2) // (nearly) every organism its own species
		sc.Opts.MutdiffCoeff = 1
		sc.Opts.MutateOnlyProb = 1
		sc.Opts.MutateAddNodeProb = pick(r, 1.0, 0.7, 0.4)
		sc.Opts.MutateAddLinkProb = pick(r, 1.0, 0.5)
		if k%3 == 0 {
			// the number of tries left unconfigured (zero): a setting like any other, read by every reproduction goroutine
			sc.Opts.NewLinkTries = 0
			c.Count("cold_starts.newlink_tries_unconfigured", 1)
		}
		for len(sc.Opts.NodeActivators) < 2 {
			sc.Opts.NodeActivators = append(sc.Opts.NodeActivators, scalarActivations[r.Intn(len(scalarActivations))])
			sc.Opts.NodeActivatorsProb = append(sc.Opts.NodeActivatorsProb, 0.5)
		}
		mon := &parMonitor{
			wf:    &c01Monitor{},
			pop:   &popMonitor{seenSpecies: map[int]*genetics.Species{}},
			innov: &innovMonitor{links: map[int64]linkKey{}, roles: map[int]byte{}},
		}
		c.Count("cold_starts", 1)
		if k%2 == 1 {
			// the debug log level is an option setting like any other: its extra code runs inside the reproduction goroutines
			// (the loggers themselves stay silent)
			neat.LogLevel = neat.LogLevelDebug
			c.Count("cold_starts.at_debug_log_level", 1)
		}
		runScenario(c, sc, mon)
		neat.LogLevel = neat.LogLevelError
	}
}

// parMonitor composes the population monitors and records the interleaving of the reproduction goroutines
type parMonitor struct {
	wf                 *c01Monitor
	pop                *popMonitor
	innov              *innovMonitor
	delay              bool
	dseed              int64
	mu                 sync.Mutex
	events             []int64
	storing            map[int]bool
	dcount             int64
	sorted, sortedCopy []*genetics.Species
	optsBefore         neat.Options
	parents            []*genetics.Genome
	parentSnaps        []*SnapGenome
}

func (m *parMonitor) record(kind int, species int) {
	m.mu.Lock()
	m.events = append(m.events, int64(kind)<<32|int64(species))
	m.mu.Unlock()
}

func (m *parMonitor) Constructed(c *Ctx, sc *EvoScenario, pop *genetics.Population) {
	c.distinctOff = true
	m.wf.Constructed(c, sc, pop)
	m.pop.Constructed(c, sc, pop)
	m.innov.Constructed(c, sc, pop) // installs InnovationStored hook
	c.distinctOff = false
	inner := genetics.VerifHooks.InnovationStored
	var dctr int64
	// delays are a deterministic function of the scenario seed and the event counter
	delayFor := func(max int64) time.Duration {
		n := atomic.AddInt64(&dctr, 1)
		x := splitmix(uint64(m.dseed) + uint64(n))
		return time.Duration(int64(x%uint64(max))) * time.Microsecond
	}
	genetics.VerifHooks.InnovationStored = func(p *genetics.Population, inn genetics.Innovation) {
		if inner != nil {
			inner(p, inn)
		}
		m.record(2, inn.InNodeId*1000+inn.OutNodeId)
	}
	genetics.VerifHooks.ReproduceStart = func(s *genetics.Species, p *genetics.Population, generation int) {
		m.record(1, s.Id)
		if m.delay {
			atomic.AddInt64(&m.dcount, 1)
			time.Sleep(delayFor(2000))
		}
	}
	genetics.VerifHooks.ReproduceEnd = func(s *genetics.Species, p *genetics.Population, babies []*genetics.Organism) {
		m.record(3, s.Id)
		structural := 0
		for _, b := range babies {
			if b.VerifState().MutationStructBaby {
				structural++
			}
		}
		if structural > 0 {
			m.mu.Lock()
			m.storing[s.Id] = true
			m.mu.Unlock()
		}
	}
	genetics.VerifHooks.Prepared = func(p *genetics.Population, sorted []*genetics.Species, generation int) {
		// the list of species every reproduction goroutine is handed: shared, read-only
		m.mu.Lock()
		m.sorted = sorted
		m.sortedCopy = append([]*genetics.Species{}, sorted...)
		m.mu.Unlock()
	}
	genetics.VerifHooks.Yield = func(site string) {
		if m.delay {
			atomic.AddInt64(&m.dcount, 1)
			time.Sleep(delayFor(200))
		}
	}
}

func (m *parMonitor) BeforeEpoch(c *Ctx, sc *EvoScenario, gen int, pop *genetics.Population) {
	m.mu.Lock()
	m.events = nil
	m.storing = map[int]bool{}
	m.mu.Unlock()
	m.optsBefore = *sc.Opts
	m.parents, m.parentSnaps = m.parents[:0], m.parentSnaps[:0]
	for _, org := range pop.Organisms {
		m.parents = append(m.parents, org.Genotype)
		m.parentSnaps = append(m.parentSnaps, snapGenome(org.Genotype))
	}
	m.wf.BeforeEpoch(c, sc, gen, pop)
	m.pop.BeforeEpoch(c, sc, gen, pop)
	m.innov.BeforeEpoch(c, sc, gen, pop)
}

func (m *parMonitor) AfterEpoch(c *Ctx, sc *EvoScenario, gen int, pop *genetics.Population, err error) bool {
	if m.wf.skipped || m.pop.skipped || m.innov.skipped {
		return false
	}
	c.Count("epochs.parallel", 1)
	// the options object is read by every reproduction goroutine without synchronisation: whoever writes to it during the
	// turnover races with all of them (the race detector sees such a write only under schedules in which no lock of the
	// global random source happens to order it, so the value itself is watched as well)
	if !reflect.DeepEqual(m.optsBefore, *sc.Opts) {
		c.Violate("shared-options-written", map[string]interface{}{"scenario": sc.brief(), "generation": gen, "before": optsBrief(&m.optsBefore), "after": optsBrief(sc.Opts)},
			"the turnover wrote to the options object that all reproduction goroutines read concurrently (NewLinkTries %d -> %d, ...)", m.optsBefore.NewLinkTries, sc.Opts.NewLinkTries)
		return false
	}
	// the genomes of the old generation are read by all reproduction goroutines (mating across species takes the champion of
	// another species): whoever writes to one of them during the turnover races with those readers. The objects are still
	// held here and are compared with their snapshots (id included).
	for i, g := range m.parents {
		after := snapGenome(g)
		if d := diffGenomes(m.parentSnaps[i], after); d != "" || after.Id != m.parentSnaps[i].Id {
			if d == "" {
				d = fmt.Sprintf("genome id %d -> %d", m.parentSnaps[i].Id, after.Id)
			}
			c.Violate("shared-parent-written", map[string]interface{}{"scenario": sc.brief(), "generation": gen, "parent": m.parentSnaps[i]},
				"the turnover wrote to a genome of the old generation, which the reproduction goroutines of all species may read: %s", d)
			return false
		}
	}
	// the monitors count their own "epochs" keys; they are part of the evidence of this property as well
	c.distinctOff = true
	ok1 := m.pop.AfterEpoch(c, sc, gen, pop, err)
	if err != nil {
		c.distinctOff = false
		return false
	}
	ok2 := m.wf.AfterEpoch(c, sc, gen, pop, err)
	ok3 := m.innov.AfterEpoch(c, sc, gen, pop, err)
	c.distinctOff = false
	if !ok1 || !ok2 || !ok3 {
		return false
	}
	m.mu.Lock()
	for i := range m.sortedCopy {
		if i >= len(m.sorted) || m.sorted[i] != m.sortedCopy[i] {
			m.mu.Unlock()
			c.Violate("shared-species-list-rewritten", map[string]interface{}{"scenario": sc.brief(), "generation": gen, "position": i},
				"the sorted list of species shared by all reproduction goroutines was rewritten while the species reproduced (position %d)", i)
			return false
		}
	}
	storing := len(m.storing)
	h := newHasher()
	for _, e := range m.events {
		h.u64(uint64(e))
	}
	sig := h.sum()
	m.mu.Unlock()
	if storing >= 2 {
		c.Count("epochs.multi_species_storing", 1)
		c.Distinct(sig)
	}
	if d := atomic.SwapInt64(&m.dcount, 0); d > 0 {
		c.Count("delays.injected", int(d))
	}
	if gen == sc.Epochs-1 && c.WantSample() {
		c.Sample(map[string]interface{}{"kind": "parallel epochs under the race detector", "scenario": sc.brief(), "delays": m.delay, "gomaxprocs": runtime.GOMAXPROCS(0),
			"species_at_end": len(pop.Species)})
	}
	return true
}

// ---------------------------------------------------------------------------------------------------------------------
// Engine 3: linearizability of the registry

type regInput struct {
	Op int // 0 next innovation number, 1 next node id, 2 store, 3 snapshot
	Id int64
}

type regOutput struct {
	Val  int64
	List []int64
}

func registryModel(initInnov int64, initNode int64) porcupine.Model {
	return porcupine.Model{
		Partition: func(history []porcupine.Operation) [][]porcupine.Operation {
			parts := make([][]porcupine.Operation, 3)
			for _, op := range history {
				switch op.Input.(regInput).Op {
				case 0:
					parts[0] = append(parts[0], op)
				case 1:
					parts[1] = append(parts[1], op)
				default:
					parts[2] = append(parts[2], op)
				}
			}
			var res [][]porcupine.Operation
			for _, p := range parts {
				if len(p) > 0 {
					res = append(res, p)
				}
			}
			return res
		},
		// the state is a string: "c<value>" for the counters (the partition is known from the first operation), "l<ids>" for the list
		Init: func() interface{} { return "" },
		Step: func(state interface{}, input interface{}, output interface{}) (bool, interface{}) {
			in := input.(regInput)
			out := output.(regOutput)
			st := state.(string)
			switch in.Op {
			case 0, 1:
				cur := initInnov
				if in.Op == 1 {
					cur = initNode
				}
				if st != "" {
					_, _ = fmt.Sscanf(st, "c%d", &cur)
				}
				return out.Val == cur+1, fmt.Sprintf("c%d", cur+1)
			case 2:
				return true, st + fmt.Sprintf(",%d", in.Id)
			default:
				var b strings.Builder
				for _, id := range out.List {
					fmt.Fprintf(&b, ",%d", id)
				}
				return b.String() == st, st
			}
		},
		Equal: func(a, b interface{}) bool { return a.(string) == b.(string) },
	}
}

func c16Histories(c *Ctx) {
	r := c.G
	n := 20
	if c.Tier == "thorough" {
		n = 60
	}
	procs := pick(r, 2, 4, 16)
	prev := runtime.GOMAXPROCS(procs)
	defer runtime.GOMAXPROCS(prev)
	for h := 0; h < n && !c.Violated(); h++ {
		initInnov, initNode := int64(r.Intn(1000)), int64(r.Intn(1000))
		pop := genetics.VerifNewEmptyPopulation(initInnov, int32(initNode))
		clients := 8 + r.Intn(9)
		perClient := 2 + r.Intn(5)
		var mu sync.Mutex
		var ops []porcupine.Operation
		var wg sync.WaitGroup
		t0 := time.Now()
		startGate := make(chan struct{})
		for cl := 0; cl < clients; cl++ {
			// the program of each client is drawn before the goroutines start
			prog := make([]regInput, perClient)
			for i := range prog {
				prog[i] = regInput{Op: pick(r, 0, 0, 1, 1, 2, 2, 3, 3), Id: int64(cl*1000 + i + 1)}
			}
			jitter := r.Intn(3) == 0
			wg.Add(1)
			go func(cl int, prog []regInput) {
				defer wg.Done()
				<-startGate
				for _, in := range prog {
					if jitter {
						runtime.Gosched()
					}
					var out regOutput
					call := time.Since(t0).Nanoseconds()
					switch in.Op {
					case 0:
						out.Val = pop.NextInnovationNumber()
					case 1:
						out.Val = int64(pop.NextNodeId())
					case 2:
						pop.StoreInnovation(*genetics.NewInnovationForLink(1, 2, in.Id, 0.5, 0))
					default:
						list := pop.Innovations()
						out.List = make([]int64, len(list))
						for i, inn := range list {
							out.List[i] = inn.InnovationNum
						}
					}
					ret := time.Since(t0).Nanoseconds()
					mu.Lock()
					ops = append(ops, porcupine.Operation{ClientId: cl, Input: in, Call: call, Output: out, Return: ret})
					mu.Unlock()
				}
			}(cl, prog)
		}
		close(startGate)
		wg.Wait()
		c.Eval(1)
		c.Count("histories.checked", 1)
		c.Count("histories.operations", len(ops))
		// the complete order of the stores is what the registry holds when everybody is done
		final := pop.Innovations()
		finalIds := make([]int64, len(final))
		for i, inn := range final {
			finalIds[i] = inn.InnovationNum
		}
		violation := func(why string) {
			sort.Slice(ops, func(i, j int) bool { return ops[i].Call < ops[j].Call })
			var hist []string
			for _, op := range ops {
				in, out := op.Input.(regInput), op.Output.(regOutput)
				hist = append(hist, fmt.Sprintf("client %d [%d,%d] op=%d id=%d -> %d %v", op.ClientId, op.Call, op.Return, in.Op, in.Id, out.Val, out.List))
			}
			c.Violate("not-linearizable", map[string]interface{}{"history": hist, "init_innovation": initInnov, "init_node_id": initNode, "final_list": finalIds, "why": why},
				"a recorded history of the innovation registry (%d operations by %d clients) is not linearizable: %s", len(ops), clients, why)
		}
		// the append-only list: exact decision thanks to unique ids (stores linearize in the final order, a snapshot of
		// length k between store k and store k+1)
		if why := checkListHistory(ops, finalIds); why != "" {
			violation(why)
			return
		}
		c.Count("histories.list_decided_exactly", 1)
		// porcupine: the two counters always, the list when the partition is small enough for its search
		var forPorcupine []porcupine.Operation
		listOps := 0
		for _, op := range ops {
			if op.Input.(regInput).Op >= 2 {
				listOps++
			}
		}
		for _, op := range ops {
			if op.Input.(regInput).Op < 2 || listOps <= 12 {
				forPorcupine = append(forPorcupine, op)
			}
		}
		res, _ := porcupine.CheckOperationsVerbose(registryModel(initInnov, initNode), forPorcupine, 300*time.Second)
		switch res {
		case porcupine.Ok:
			c.Count("histories.ok", 1)
			if listOps <= 12 {
				c.Count("histories.list_also_by_porcupine", 1)
			}
		case porcupine.Unknown:
			c.Count("histories.timeout", 1)
			c.Inconclusive("porcupine timed out on a history of %d operations", len(forPorcupine))
		default:
			violation("porcupine found no linearization")
			return
		}
		// overlap statistics: how concurrent the history was
		overlaps := 0
		for i := range ops {
			for j := i + 1; j < len(ops); j++ {
				if ops[i].Call <= ops[j].Return && ops[j].Call <= ops[i].Return && ops[i].ClientId != ops[j].ClientId {
					overlaps++
				}
			}
		}
		c.Count("histories.overlapping_pairs", overlaps)
		hh := newHasher()
		sort.Slice(ops, func(i, j int) bool { return ops[i].Call < ops[j].Call })
		for _, op := range ops {
			hh.i(op.ClientId)
			hh.i(op.Input.(regInput).Op)
			hh.u64(uint64(op.Output.(regOutput).Val))
		}
		if overlaps > 0 {
			c.Distinct(hh.sum())
		}
		if c.WantSample() && overlaps > 0 {
			c.Sample(map[string]interface{}{"kind": "registry history", "clients": clients, "operations": len(ops), "overlapping_pairs": overlaps, "verdict": "linearizable"})
		}
	}
	_ = rand.Int
}

// checkListHistory decides linearizability of the append-only list part of the history exactly. Every store carries a
// unique id, so the order of the stores is known from the final content and every snapshot identifies the stores it saw.
func checkListHistory(ops []porcupine.Operation, final []int64) string {
	pos := map[int64]int{}
	for i, id := range final {
		if _, dup := pos[id]; dup {
			return fmt.Sprintf("id %d is stored twice", id)
		}
		pos[id] = i
	}
	type iv struct{ call, ret int64 }
	stores := make([]*iv, len(final))
	groups := make([][]iv, len(final)+1) // snapshots of length k
	nStores := 0
	for _, op := range ops {
		in, out := op.Input.(regInput), op.Output.(regOutput)
		switch in.Op {
		case 2:
			p, ok := pos[in.Id]
			if !ok {
				return fmt.Sprintf("stored innovation %d is lost", in.Id)
			}
			stores[p] = &iv{op.Call, op.Return}
			nStores++
		case 3:
			if len(out.List) > len(final) {
				return "a snapshot is longer than the final list"
			}
			for i, id := range out.List {
				if final[i] != id {
					return fmt.Sprintf("a snapshot %v is not a prefix of the final list %v", out.List, final)
				}
			}
			groups[len(out.List)] = append(groups[len(out.List)], iv{op.Call, op.Return})
		}
	}
	if nStores != len(final) {
		return fmt.Sprintf("%d stores were made but the list holds %d entries", nStores, len(final))
	}
	// earliest feasible linearization points
	t := int64(-1 << 62)
	place := func(x iv) bool {
		p := t
		if x.call > p {
			p = x.call
		}
		return p <= x.ret
	}
	for k := 0; k <= len(final); k++ {
		next := t
		for _, sn := range groups[k] {
			if !place(sn) {
				return fmt.Sprintf("a snapshot of %d entries returned before store #%d could have taken effect", k, k)
			}
			if sn.call > next {
				next = sn.call
			}
		}
		t = next
		if k < len(final) {
			st := stores[k]
			if !place(*st) {
				return fmt.Sprintf("store #%d returned before an operation ordered ahead of it was called", k+1)
			}
			if st.call > t {
				t = st.call
			}
		}
	}
	return ""
}

// ---------------------------------------------------------------------------------------------------------------------
// Engine 1: collecting the reports of the race detector (parent side)

var raceFrameRe = regexp.MustCompile(`(?m)^\s+(github\.com/yaricom/goNEAT/[^\n]+?)\(\)\s*$`)

func c16CollectRaces(p *parentRun) {
	files, _ := filepath.Glob(filepath.Join(p.dir, "race-*"))
	reports := 0
	unique := map[string]string{}
	for _, f := range files {
		data, err := os.ReadFile(f)
		if err != nil {
			continue
		}
		blocks := strings.Split(string(data), "==================")
		for _, b := range blocks {
			if !strings.Contains(b, "WARNING: DATA RACE") {
				continue
			}
			reports++
			// de-duplicate by the pair of innermost goNEAT frames of the two conflicting accesses (line numbers stripped)
			var key []string
			for _, section := range regexp.MustCompile(`(?m)^(Read at|Write at|Previous read at|Previous write at)[^\n]*\n`).Split(b, -1)[1:] {
				// the access stack ends at the first empty line
				if i := strings.Index(section, "\n\n"); i >= 0 {
					section = section[:i]
				}
				fr := raceFrameRe.FindStringSubmatch(section)
				if fr != nil {
					key = append(key, strings.TrimPrefix(fr[1], "github.com/yaricom/goNEAT/v4/"))
				} else {
					key = append(key, "(data obtained from the library, accessed in the workload)")
				}
				if len(key) == 2 {
					break
				}
			}
			sort.Strings(key)
			k := strings.Join(key, " <-> ")
			if _, ok := unique[k]; !ok {
				unique[k] = b
			}
		}
	}
	p.extra["race_reports"] = reports
	p.extra["race_reports_unique"] = len(unique)
	p.extra["race_detector"] = "go build -race; GORACE=halt_on_error=0 log_path=<per shard>"
	keys := make([]string, 0, len(unique))
	for k := range unique {
		keys = append(keys, k)
	}
	sort.Strings(keys)
	for _, k := range keys {
		text := unique[k]
		if len(text) > 6000 {
			text = text[:6000]
		}
		v := &Violation{Property: "C16", Kind: "data-race", Tier: p.tier, Seed: p.seed, Case: -1, Shard: -1,
			Message: "the race detector reported a data race between: " + k,
			Detail:  map[string]interface{}{"key": k, "report": text}}
		v.Replay = writeReplay(v)
		p.violations = append(p.violations, v)
	}
}
