#!/bin/bash
# setup_cmd: warms the Go build cache (standard library, race runtime, dependencies) and builds both monitor binaries. Offline.
set -e
cd "$(dirname "$0")"
export GOFLAGS=-mod=mod GOPROXY=off GOSUMDB=off GOTOOLCHAIN=local
mkdir -p bin .work evidence replays
(cd harness && go build -tags verif -o ../bin/verifmon ./cmd/verifmon)
(cd harness && go build -race -tags verif -o ../bin/verifmon-race ./cmd/verifmon)
echo "setup ok"
